------------------------------- MODULE TxDep -------------------------------
(* Dependency graph of grevm (src/tx_dependency.rs) with the caller contract of the scheduler
   (scheduler.rs: next / execution_task / execute_task / validate, commit loop), one action per
   lock region and per cursor operation inside a region.  Action names are the hook labels
   (groups DEP, DEPX) and the labels of the probe's caller steps TW_x, TC_x:

     next()        DN_Load  DN_FetchAdd  DN_Take                                    :45-66
     remove(t,p)   DR_Begin  { DR_Lock  [DX_Load] [DX_Min]  DR_Dep }*  DR_End        :83-123
     commit(t)     DC_Lock  [DX_Min]  DC_Commit                                     :126-138
     key_tx(t)     DK_Lock  DX_Committed  [DX_Min]  DK_KeyTx                         :146-162
     add(t,d)      DA_Lock1 DA_Lock2 DA_Lock3 [DX_Min] DA_Add  |  DA_Lock3 [DX_Min] DA_Add   :174-212

   Callers: workers loop  TW_Loop -> next -> TW_Task (status under the tx lock decides: execute /
   duplicate / already past execution => remove(t,false)) -> TW_Exec (scripted outcome: ok,
   blocked:b => add(t,b), error => key_tx(t), invalid[:b] => executed, then validation conflict =>
   add(t,b|None)) -> TW_Status.  The commit thread publishes boundary k+1 and then calls commit(k).

   Guard switches (TRUE = the implementation as read):
     GLiveCommitted  key_tx reads the live committed cursor under the dependent's lock   (:149)
     GRecheck        remove clears a dependent only if it still waits for this tx         (:95)
     GCommitRelease  commit releases the successor's barrier                              (:131)
     GAddReoffer     add re-offers the blocker                                            (:191-196)
     GPastRemove     a claim that finds the tx past execution releases its dependents     (scheduler.rs:826-829)
     GPublishFirst   the commit boundary is published before commit() is called           (scheduler.rs:353-355) *)
EXTENDS Integers, FiniteSets, Sequences, TLC

CONSTANTS Scripts, GLiveCommitted, GRecheck, GCommitRelease, GAddReoffer, GPastRemove, GPublishFirst

VARIABLES script, onboard, dep, affects, index, committed, dsLock, afLock,
          status, inc, done, pc, loc,
          txLock,     \* tx_states[i] of the scheduler: held across a whole execution attempt
          premature   \* ghost: a stale reverse edge released a transaction waiting for someone else

vars == <<script, onboard, dep, affects, index, committed, dsLock, afLock, status, inc, done, pc, loc, txLock, premature>>

MaxN == 4
Tx == 0..(MaxN - 1)
Workers == {"w0", "w1", "w2"}
Threads == Workers \cup {"com"}
Min(a, b) == IF a < b THEN a ELSE b
N == script.n
ActiveWorkers(s) == {w \in Workers : (CASE w = "w0" -> 0 [] w = "w1" -> 1 [] OTHER -> 2) < s.workers}

OkA == [k |-> "ok", b |-> -1]
NoLoc == [tx |-> -1, handoff |-> -1, iter |-> {}, d |-> -1, next |-> -1, pop |-> FALSE, out |-> OkA,
          b |-> -1, minto |-> -1, after |-> "none", ret |-> "none", k |-> 0, c |-> 0]

InitFor(s) ==
  /\ script = s
  /\ onboard = [i \in Tx |-> TRUE] /\ dep = [i \in Tx |-> -1] /\ affects = [i \in Tx |-> {}]
  /\ index = 0 /\ committed = 0
  /\ dsLock = [i \in Tx |-> "free"] /\ afLock = [i \in Tx |-> "free"]
  /\ status = [i \in Tx |-> "Ready"] /\ inc = [i \in Tx |-> 0] /\ done = FALSE
  /\ pc = [t \in Threads |-> IF t \in ActiveWorkers(s) THEN "tw_loop" ELSE IF t = "com" THEN "tc_poll" ELSE "off"]
  /\ loc = [t \in Threads |-> NoLoc]
  /\ txLock = [i \in Tx |-> "free"]
  /\ premature = FALSE

Init == \E s \in Scripts : InitFor(s)

Goto(t, p) == pc' = [pc EXCEPT ![t] = p]

(* scripted outcome of the attempt with incarnation `i` of tx, as adjusted by the probe *)
Planned(tx, i) == LET a == script.attempts[tx + 1] IN a[Min(i, Len(a))]
(* an attempt is [k |-> "ok" | "error" | "blocked" | "invalid", b |-> predecessor or -1] *)
IsBlocked(o) == o.k = "blocked"
IsInvalidB(o) == o.k = "invalid" /\ o.b # -1
IsInvalid(o) == o.k = "invalid"
Digit(o) == o.b
Outcome(tx, i) ==
  LET o == Planned(tx, i) IN
  IF IsBlocked(o) /\ o.b < committed THEN OkA
  ELSE IF o.k = "error" /\ tx = committed THEN OkA
  ELSE IF IsInvalidB(o) /\ o.b < committed THEN [k |-> "invalid", b |-> -1]
  ELSE o

(* ------------------------------------ next() ------------------------------------ *)
TW_Loop(t) ==
  /\ pc[t] = "tw_loop"
  /\ Goto(t, IF done THEN "end" ELSE "dn_load")
  /\ UNCHANGED <<script, onboard, dep, affects, index, committed, dsLock, afLock, status, inc, done, loc, txLock, premature>>

DN_Load(t) ==
  /\ pc[t] = "dn_load"
  /\ Goto(t, IF index >= N THEN "tw_loop" ELSE "dn_fa")
  /\ UNCHANGED <<script, onboard, dep, affects, index, committed, dsLock, afLock, status, inc, done, loc, txLock, premature>>

DN_FetchAdd(t) ==
  /\ pc[t] = "dn_fa"
  /\ index' = index + 1
  /\ IF index >= N THEN Goto(t, "tw_loop") /\ UNCHANGED loc
     ELSE Goto(t, "dn_take") /\ loc' = [loc EXCEPT ![t].tx = index]
  /\ UNCHANGED <<script, onboard, dep, affects, committed, dsLock, afLock, status, inc, done, txLock, premature>>

DN_Take(t) ==
  /\ pc[t] = "dn_take" /\ dsLock[loc[t].tx] = "free"
  /\ LET i == loc[t].tx IN
     IF onboard[i] /\ dep[i] = -1
     THEN onboard' = [onboard EXCEPT ![i] = FALSE] /\ Goto(t, "tw_task")
     ELSE UNCHANGED onboard /\ Goto(t, "tw_loop")
  /\ UNCHANGED <<script, dep, affects, index, committed, dsLock, afLock, status, inc, done, loc, txLock, premature>>

(* ------------------------------------ callers ------------------------------------ *)
TW_Task(t) ==
  /\ pc[t] = "tw_task" /\ txLock[loc[t].tx] = "free"
  /\ LET i == loc[t].tx IN
     CASE status[i] = "Ready" ->
            /\ status' = [status EXCEPT ![i] = "Executing"] /\ inc' = [inc EXCEPT ![i] = @ + 1]
            /\ Goto(t, "tw_exec") /\ UNCHANGED loc
       [] status[i] = "Executing" ->
            /\ Goto(t, "tw_loop") /\ UNCHANGED <<status, inc, loc>>
       [] OTHER ->
            /\ UNCHANGED <<status, inc>>
            /\ IF GPastRemove
               THEN Goto(t, "dr_begin") /\ loc' = [loc EXCEPT ![t].pop = FALSE, ![t].ret = "tw_loop", ![t].next = -1]
               ELSE Goto(t, "tw_loop") /\ UNCHANGED loc
  /\ UNCHANGED <<script, onboard, dep, affects, index, committed, dsLock, afLock, done, txLock, premature>>

TW_Exec(t) ==
  /\ pc[t] = "tw_exec" /\ txLock[loc[t].tx] = "free"
  /\ txLock' = [txLock EXCEPT ![loc[t].tx] = t]
  /\ LET i == loc[t].tx  o == Outcome(i, inc[i]) IN
     CASE o.k = "ok" \/ IsInvalid(o) ->
            Goto(t, "dr_begin") /\ loc' = [loc EXCEPT ![t].out = o, ![t].pop = TRUE, ![t].ret = "tw_status", ![t].next = -1]
       [] IsBlocked(o) ->
            Goto(t, "da_lock1") /\ loc' = [loc EXCEPT ![t].out = o, ![t].b = Digit(o), ![t].ret = "tw_status", ![t].next = -1]
       [] OTHER ->
            Goto(t, "dk_lock") /\ loc' = [loc EXCEPT ![t].out = o, ![t].ret = "tw_status", ![t].next = -1,
                                                      ![t].c = committed]  \* GLiveCommitted = FALSE: sampled before the lock
  /\ UNCHANGED <<script, onboard, dep, affects, index, committed, dsLock, afLock, status, inc, done, premature>>

NextIter(t, l) == IF l[t].next # -1 THEN "tw_task" ELSE "tw_loop"

TW_Status(t) ==
  /\ pc[t] \in {"tw_status", "tw_status2"}
  /\ LET i == loc[t].tx  o == loc[t].out IN
     IF pc[t] = "tw_status2"
     THEN /\ status' = [status EXCEPT ![i] = "Ready"]
          /\ txLock' = [txLock EXCEPT ![i] = "free"]
          /\ Goto(t, NextIter(t, loc))
          /\ loc' = [loc EXCEPT ![t].tx = IF loc[t].next # -1 THEN loc[t].next ELSE -1, ![t].next = -1]
     ELSE CASE o.k = "ok" ->
                 /\ status' = [status EXCEPT ![i] = "Validated"]
                 /\ txLock' = [txLock EXCEPT ![i] = "free"]
                 /\ Goto(t, NextIter(t, loc))
                 /\ loc' = [loc EXCEPT ![t].tx = IF loc[t].next # -1 THEN loc[t].next ELSE -1, ![t].next = -1]
            [] IsInvalid(o) ->
                 /\ status' = [status EXCEPT ![i] = "Executed"]
                 /\ UNCHANGED txLock
                 /\ IF IsInvalidB(o)
                    THEN Goto(t, "da_lock1") /\ loc' = [loc EXCEPT ![t].b = Digit(o), ![t].ret = "tw_status2"]
                    ELSE Goto(t, "da_lock3") /\ loc' = [loc EXCEPT ![t].b = -1, ![t].ret = "tw_status2"]
            [] OTHER ->
                 /\ status' = [status EXCEPT ![i] = "Ready"]
                 /\ txLock' = [txLock EXCEPT ![i] = "free"]
                 /\ Goto(t, "tw_loop") /\ loc' = [loc EXCEPT ![t].tx = -1]
  /\ UNCHANGED <<script, onboard, dep, affects, index, committed, dsLock, afLock, inc, done, premature>>

(* ------------------------------------ remove ------------------------------------ *)
DR_Begin(t) ==
  /\ pc[t] = "dr_begin" /\ afLock[loc[t].tx] = "free"
  /\ LET i == loc[t].tx IN
     IF affects[i] = {}
     THEN Goto(t, loc[t].ret) /\ UNCHANGED <<afLock, loc>>
     ELSE /\ afLock' = [afLock EXCEPT ![i] = t]
          /\ loc' = [loc EXCEPT ![t].iter = affects[i]]
          /\ Goto(t, "dr_lock")
  /\ UNCHANGED <<script, onboard, dep, affects, index, committed, dsLock, status, inc, done, txLock, premature>>

DR_Lock(t, d) ==
  /\ pc[t] = "dr_lock" /\ d \in loc[t].iter /\ dsLock[d] = "free"
  /\ dsLock' = [dsLock EXCEPT ![d] = t]
  /\ premature' = (premature \/ (~GRecheck /\ dep[d] # loc[t].tx /\ dep[d] # -1))
  /\ LET i == loc[t].tx IN
     IF dep[d] = i \/ ~GRecheck
     THEN /\ dep' = [dep EXCEPT ![d] = -1]
          /\ IF onboard[d]
             THEN IF loc[t].pop /\ d = i + 1
                  THEN Goto(t, "dx_load") /\ loc' = [loc EXCEPT ![t].d = d]
                  ELSE Goto(t, "dx_min") /\ loc' = [loc EXCEPT ![t].d = d, ![t].minto = d, ![t].after = "dr_dep"]
             ELSE Goto(t, "dr_dep") /\ loc' = [loc EXCEPT ![t].d = d]
     ELSE UNCHANGED dep /\ Goto(t, "dr_dep") /\ loc' = [loc EXCEPT ![t].d = d]
  /\ UNCHANGED <<script, onboard, affects, index, committed, afLock, status, inc, done, txLock>>

DX_Load(t) ==
  /\ pc[t] = "dx_load"
  /\ LET d == loc[t].d IN
     IF index > d
     THEN /\ onboard' = [onboard EXCEPT ![d] = FALSE]
          /\ loc' = [loc EXCEPT ![t].next = d]
          /\ Goto(t, "dr_dep")
     ELSE /\ UNCHANGED onboard
          /\ loc' = [loc EXCEPT ![t].minto = d, ![t].after = "dr_dep"]
          /\ Goto(t, "dx_min")
  /\ UNCHANGED <<script, dep, affects, index, committed, dsLock, afLock, status, inc, done, txLock, premature>>

DX_Min(t) ==
  /\ pc[t] = "dx_min"
  /\ index' = Min(index, loc[t].minto)
  /\ Goto(t, loc[t].after)
  /\ UNCHANGED <<script, onboard, dep, affects, committed, dsLock, afLock, status, inc, done, loc, txLock, premature>>

DR_Dep(t) ==
  /\ pc[t] = "dr_dep"
  /\ dsLock' = [dsLock EXCEPT ![loc[t].d] = "free"]
  /\ LET rest == loc[t].iter \ {loc[t].d} IN
     /\ loc' = [loc EXCEPT ![t].iter = rest, ![t].d = -1]
     /\ Goto(t, IF rest = {} THEN "dr_end" ELSE "dr_lock")
  /\ UNCHANGED <<script, onboard, dep, affects, index, committed, afLock, status, inc, done, txLock, premature>>

DR_End(t) ==
  /\ pc[t] = "dr_end"
  /\ affects' = [affects EXCEPT ![loc[t].tx] = {}]
  /\ afLock' = [afLock EXCEPT ![loc[t].tx] = "free"]
  /\ Goto(t, loc[t].ret)
  /\ UNCHANGED <<script, onboard, dep, index, committed, dsLock, status, inc, done, loc, txLock, premature>>

(* ------------------------------------ key_tx ------------------------------------ *)
DK_Lock(t) ==
  /\ pc[t] = "dk_lock" /\ dsLock[loc[t].tx] = "free"
  /\ dsLock' = [dsLock EXCEPT ![loc[t].tx] = t]
  /\ Goto(t, "dx_committed")
  /\ UNCHANGED <<script, onboard, dep, affects, index, committed, afLock, status, inc, done, txLock, loc, premature>>

DX_Committed(t) ==
  /\ pc[t] = "dx_committed"
  /\ LET i == loc[t].tx
         c == IF GLiveCommitted THEN committed ELSE loc[t].c
         nd == IF i > c THEN i ELSE dep[i]
     IN /\ dep' = [dep EXCEPT ![i] = nd]
        /\ onboard' = [onboard EXCEPT ![i] = TRUE]
        /\ IF nd = -1
           THEN Goto(t, "dx_min") /\ loc' = [loc EXCEPT ![t].minto = i, ![t].after = "dk_end"]
           ELSE Goto(t, "dk_end") /\ UNCHANGED loc
  /\ UNCHANGED <<script, affects, index, committed, dsLock, afLock, status, inc, done, txLock, premature>>

DK_KeyTx(t) ==
  /\ pc[t] = "dk_end"
  /\ dsLock' = [dsLock EXCEPT ![loc[t].tx] = "free"]
  /\ Goto(t, loc[t].ret)
  /\ UNCHANGED <<script, onboard, dep, affects, index, committed, afLock, status, inc, done, loc, txLock, premature>>

(* ------------------------------------ add ------------------------------------ *)
DA_Lock1(t) ==
  /\ pc[t] = "da_lock1" /\ afLock[loc[t].b] = "free"
  /\ afLock' = [afLock EXCEPT ![loc[t].b] = t]
  /\ Goto(t, "da_lock2")
  /\ UNCHANGED <<script, onboard, dep, affects, index, committed, dsLock, status, inc, done, loc, txLock, premature>>

DA_Lock2(t) ==
  /\ pc[t] = "da_lock2" /\ dsLock[loc[t].b] = "free"
  /\ dsLock' = [dsLock EXCEPT ![loc[t].b] = t]
  /\ Goto(t, "da_lock3")
  /\ UNCHANGED <<script, onboard, dep, affects, index, committed, afLock, status, inc, done, loc, txLock, premature>>

DA_Lock3(t) ==
  /\ pc[t] = "da_lock3" /\ dsLock[loc[t].tx] = "free"
  /\ dsLock' = [dsLock EXCEPT ![loc[t].tx] = t]
  /\ LET i == loc[t].tx  b == loc[t].b IN
     IF b # -1
     THEN /\ dep' = [dep EXCEPT ![i] = b]
          /\ onboard' = [onboard EXCEPT ![i] = TRUE, ![b] = IF GAddReoffer THEN TRUE ELSE @]
          /\ affects' = [affects EXCEPT ![b] = @ \cup {i}]
          /\ IF dep[b] = -1 /\ GAddReoffer
             THEN Goto(t, "dx_min") /\ loc' = [loc EXCEPT ![t].minto = b, ![t].after = "da_add"]
             ELSE Goto(t, "da_add") /\ UNCHANGED loc
     ELSE /\ UNCHANGED affects
          /\ IF ~onboard[i]
             THEN /\ onboard' = [onboard EXCEPT ![i] = TRUE] /\ dep' = [dep EXCEPT ![i] = -1]
                  /\ Goto(t, "dx_min") /\ loc' = [loc EXCEPT ![t].minto = i, ![t].after = "da_add"]
             ELSE UNCHANGED <<onboard, dep, loc>> /\ Goto(t, "da_add")
  /\ UNCHANGED <<script, index, committed, afLock, status, inc, done, txLock, premature>>

DA_Add(t) ==
  /\ pc[t] = "da_add"
  /\ LET i == loc[t].tx  b == loc[t].b IN
     /\ dsLock' = [j \in Tx |-> IF j = i \/ j = b THEN "free" ELSE dsLock[j]]
     /\ afLock' = IF b # -1 THEN [afLock EXCEPT ![b] = "free"] ELSE afLock
  /\ Goto(t, loc[t].ret)
  /\ UNCHANGED <<script, onboard, dep, affects, index, committed, status, inc, done, loc, txLock, premature>>

(* ------------------------------------ commit thread ------------------------------------ *)
K == loc["com"].k

AdvanceK == /\ loc' = [loc EXCEPT !["com"].k = @ + 1]
            /\ Goto("com", IF K + 1 >= N THEN "tc_done" ELSE "tc_poll")

TC_Poll ==
  /\ pc["com"] = "tc_poll"
  /\ Goto("com", IF status[K] = "Validated"
                 THEN (IF GPublishFirst \/ K + 1 >= N THEN "tc_publish" ELSE "dc_lock")
                 ELSE "tc_poll")
  /\ loc' = [loc EXCEPT !["com"].tx = K]
  /\ UNCHANGED <<script, onboard, dep, affects, index, committed, dsLock, afLock, status, inc, done, txLock, premature>>

TC_Publish ==
  /\ pc["com"] = "tc_publish"
  /\ committed' = K + 1
  /\ IF GPublishFirst /\ K + 1 < N
     THEN Goto("com", "dc_lock") /\ UNCHANGED loc
     ELSE AdvanceK
  /\ UNCHANGED <<script, onboard, dep, affects, index, dsLock, afLock, status, inc, done, txLock, premature>>

DC_Lock ==
  /\ pc["com"] = "dc_lock" /\ K + 1 < N
  /\ dsLock[K + 1] = "free"
  /\ dsLock' = [dsLock EXCEPT ![K + 1] = "com"]
  /\ IF onboard[K + 1] /\ GCommitRelease
     THEN /\ dep' = [dep EXCEPT ![K + 1] = -1]
          /\ Goto("com", "dx_min") /\ loc' = [loc EXCEPT !["com"].minto = K + 1, !["com"].after = "dc_commit"]
     ELSE UNCHANGED <<dep, loc>> /\ Goto("com", "dc_commit")
  /\ UNCHANGED <<script, onboard, affects, index, committed, afLock, status, inc, done, txLock, premature>>

DC_Commit ==
  /\ pc["com"] = "dc_commit"
  /\ dsLock' = [dsLock EXCEPT ![K + 1] = "free"]
  /\ IF GPublishFirst THEN AdvanceK ELSE Goto("com", "tc_publish") /\ UNCHANGED loc
  /\ UNCHANGED <<script, onboard, dep, affects, index, committed, afLock, status, inc, done, txLock, premature>>

TC_Done ==
  /\ pc["com"] = "tc_done"
  /\ done' = TRUE
  /\ Goto("com", "end")
  /\ UNCHANGED <<script, onboard, dep, affects, index, committed, dsLock, afLock, status, inc, loc, txLock, premature>>

WStep(t) == \/ TW_Loop(t) \/ DN_Load(t) \/ DN_FetchAdd(t) \/ DN_Take(t) \/ TW_Task(t) \/ TW_Exec(t)
            \/ TW_Status(t) \/ DR_Begin(t) \/ (\E d \in Tx : DR_Lock(t, d)) \/ DX_Load(t) \/ DX_Min(t)
            \/ DR_Dep(t) \/ DR_End(t) \/ DK_Lock(t) \/ DX_Committed(t) \/ DK_KeyTx(t)
            \/ DA_Lock1(t) \/ DA_Lock2(t) \/ DA_Lock3(t) \/ DA_Add(t)
CStep == TC_Poll \/ TC_Publish \/ DC_Lock \/ DC_Commit \/ TC_Done \/ DX_Min("com")

AllEnded == \A t \in Threads : pc[t] \in {"end", "off"}
Next == (\E t \in Workers : WStep(t)) \/ CStep \/ (AllEnded /\ UNCHANGED vars)

Spec == Init /\ [][Next]_vars /\ (\A t \in Workers : WF_vars(WStep(t))) /\ WF_vars(CStep)

(* ------------------------------------ properties (C16) ------------------------------------ *)
(* exactly one claimer: a transaction in execution is held by exactly one worker *)
Holds(t, i) == loc[t].tx = i /\ pc[t] \in {"tw_exec", "dr_begin", "dr_lock", "dx_load", "dx_min", "dr_dep",
                                           "dr_end", "dk_lock", "dx_committed", "dk_end", "da_lock1",
                                           "da_lock2", "da_lock3", "da_add", "tw_status", "tw_status2"}
                /\ loc[t].ret # "tw_loop"
OneClaimer == \A i \in Tx : Cardinality({t \in Workers : Holds(t, i)}) <= 1

(* the orphan made manifest: nobody holds work, the cursor is exhausted, the commit thread waits
   for a transaction nobody will ever execute again - only reachable if a re-offer was lost       *)
Stuck == /\ ~done /\ index >= N
         /\ \A t \in ActiveWorkers(script) : pc[t] \in {"tw_loop", "dn_load"}
         /\ pc["com"] = "tc_poll" /\ status[K] # "Validated"
NoOrphan == ~Stuck

(* incarnations stay within the script (a transaction is never executed more often than its
   scripted attempts: a release hands it to exactly one claimer)                                 *)
(* a stale reverse edge never releases a transaction that now waits for someone else *)
NoPrematureRelease == ~premature

BoundedAttempts == \A i \in Tx : i < N => inc[i] <= Len(script.attempts[i + 1])

Terminates == <>AllEnded
=============================================================================
