-------------------------- MODULE BeneficiaryTrace --------------------------
(* Trace validation of the production BeneficiaryHistory (probe: three writer threads and one
   reader under the step controller, HIST hook points) against Beneficiary.tla.                  *)
EXTENDS Beneficiary, Json, IOUtils, TLCExt

VARIABLE l
Rec == ndJsonDeserialize(IOEnv.TRACE)
tvars == <<vars, l>>
Has(e) == l <= Len(Rec) /\ Rec[l].l = e /\ l' = l + 1
R == Rec[l]
WriterOf(t) == CASE t = "w0" -> 0 [] t = "w1" -> 1 [] OTHER -> 2
ScriptOf(r) == [anchor |-> r.anchor, ops |-> r.ops]

TraceInit == l = 1 /\ Rec[1].l = "RESET" /\ InitFor(ScriptOf(Rec[1]))
Reset == /\ Has("RESET")
         /\ script' = ScriptOf(R) /\ entry' = [j \in W |-> Est] /\ wpc' = [j \in W |-> 1] /\ rpc' = "scan"
         /\ rloc' = [j |-> NTx - 1, origins |-> <<>>, rewards |-> <<>>, base |-> -2, value |-> -2,
                     vorigins |-> <<>>, valid |-> FALSE, blocked |-> -1]

TraceNext ==
  \/ Reset
  \/ Has("HE_Record") /\ HE_Record(WriterOf(R.t)) /\ R.inc = OpOf(WriterOf(R.t)).inc
       /\ R.cur = entry[WriterOf(R.t)].inc /\ R.ok = (R.inc > R.cur)
  \/ Has("HE_Invalidate") /\ HE_Invalidate(WriterOf(R.t)) /\ R.inc = OpOf(WriterOf(R.t)).inc
       /\ R.cur = entry[WriterOf(R.t)].inc
  \/ Has("HE_Snapshot") /\ HE_Snapshot /\ R.inc = entry[rloc.j].inc /\ R.exact = (entry[rloc.j].k # "est")

TraceSpec == TraceInit /\ [][TraceNext]_tvars
TraceAccepted ==
  LET d == TLCGet("stats").diameter IN
  IF d - 1 = Len(Rec) THEN TRUE
  ELSE Print(<<"TRACE REJECTED at record", d, IF d <= Len(Rec) THEN Rec[d] ELSE "eof">>, FALSE)
=============================================================================
