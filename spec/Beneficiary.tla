---------------------------- MODULE Beneficiary ----------------------------
(* Block beneficiary history (src/beneficiary/history.rs): one entry per transaction, replaced by
   every execution incarnation; readers walk the entries backwards ONE AT A TIME (each snapshot
   takes only that entry's lock) down to the nearest absolute snapshot or the immutable block
   anchor, fold the rewards oldest-first with revm's checked add, and remember every origin;
   validation rescans and compares the whole origin chain.  Action names = HIST hook labels.

     HE_Record(w)      record_execution / record_estimate (first publication of a newer incarnation)  :135-144
     HE_Invalidate(w)  invalidate (only the incarnation that validation inspected)                   :147-156
     HE_Snapshot(r)    one entry read of a resolve or validate scan                                  :159-161, 250-297

   Guards: GWholeChain (validate compares every origin, not only the newest), GRecordGuard,
   GInvalidateGuard (incarnation comparisons), GOldestFirst (fold order of the checked additions). *)
EXTENDS Integers, Sequences, FiniteSets, TLC

CONSTANTS Scripts, GWholeChain, GRecordGuard, GInvalidateGuard, GOldestFirst

VARIABLES script, entry, wpc, rpc, rloc
vars == <<script, entry, wpc, rpc, rloc>>

MaxBal == 20          \* balances saturate like U256: an addition that would exceed MaxBal is skipped
NTx == 3              \* writers 0..2; the reader is transaction 3
W == 0..(NTx - 1)
Est == [inc |-> 0, k |-> "est", v |-> 0]

(* a script: anchor (balance or -1 = absent account) and, per writer, a sequence of operations
   [op |-> "rec", inc, k |-> "reward"|"snap"|"unchanged"|"est", v]  or  [op |-> "inv", inc]       *)
InitFor(s) ==
  /\ script = s
  /\ entry = [j \in W |-> Est]
  /\ wpc = [j \in W |-> 1]
  /\ rpc = "scan"
  /\ rloc = [j |-> NTx - 1, origins |-> <<>>, rewards |-> <<>>, base |-> -2, value |-> -2,
             vorigins |-> <<>>, valid |-> FALSE, blocked |-> -1]
Init == \E s \in Scripts : InitFor(s)

WDone(j) == wpc[j] > Len(script.ops[j + 1])
WritersDone == \A j \in W : WDone(j)
OpOf(j) == script.ops[j + 1][wpc[j]]

HE_Record(j) ==
  /\ ~WDone(j) /\ OpOf(j).op = "rec"
  /\ entry' = IF OpOf(j).inc > entry[j].inc \/ ~GRecordGuard
              THEN [entry EXCEPT ![j] = [inc |-> OpOf(j).inc, k |-> OpOf(j).k, v |-> OpOf(j).v]]
              ELSE entry
  /\ wpc' = [wpc EXCEPT ![j] = @ + 1]
  /\ UNCHANGED <<script, rpc, rloc>>

HE_Invalidate(j) ==
  /\ ~WDone(j) /\ OpOf(j).op = "inv"
  /\ entry' = IF (entry[j].inc = OpOf(j).inc \/ ~GInvalidateGuard) /\ entry[j].k # "est"
              THEN [entry EXCEPT ![j].k = "est"] ELSE entry
  /\ wpc' = [wpc EXCEPT ![j] = @ + 1]
  /\ UNCHANGED <<script, rpc, rloc>>

(* checked add: overflow leaves the balance unchanged; a reward materialises an absent account *)
AddTo(b, r) == LET x == IF b = -1 THEN 0 ELSE b IN IF x + r > MaxBal THEN x ELSE x + r
RECURSIVE FoldSeq(_, _, _)
FoldSeq(b, rs, i) == IF i > Len(rs) THEN b ELSE FoldSeq(AddTo(b, rs[i]), rs, i + 1)
Rev(s) == [i \in 1..Len(s) |-> s[Len(s) + 1 - i]]
Resolve(base, newestFirst) == FoldSeq(base, IF GOldestFirst THEN Rev(newestFirst) ELSE newestFirst, 1)

(* one entry of the backward scan; used by resolve (rpc = "scan") and by validate (rpc = "vscan") *)
HE_Snapshot ==
  /\ rpc \in {"scan", "vscan"}
  /\ rpc = "vscan" => WritersDone       \* the decisive validation runs after the predecessors are final
  /\ LET j == rloc.j  e == entry[j]  first == rpc = "scan"
         org == Append(IF first THEN rloc.origins ELSE rloc.vorigins, <<j, e.inc>>)
         rew == IF e.k = "reward" THEN Append(rloc.rewards, e.v) ELSE rloc.rewards
         stop == e.k = "snap" \/ j = 0
         base == IF e.k = "snap" THEN e.v ELSE script.anchor
     IN IF e.k = "est"
        THEN \* resolve: blocked by j (the attempt is discarded and retried); validate: invalid
             IF first THEN /\ rloc' = [rloc EXCEPT !.j = NTx - 1, !.origins = <<>>, !.rewards = <<>>, !.blocked = j]
                           /\ rpc' = "scan"
                           /\ ~WDone(j)         \* retry only makes sense once j publishes again
                  ELSE /\ rloc' = [rloc EXCEPT !.valid = FALSE] /\ rpc' = "done"
        ELSE IF first
             THEN IF stop
                  THEN /\ rloc' = [rloc EXCEPT !.origins = org, !.rewards = rew, !.base = base,
                                               !.value = Resolve(base, rew), !.j = NTx - 1]
                       /\ rpc' = "vscan"
                  ELSE /\ rloc' = [rloc EXCEPT !.origins = org, !.rewards = rew, !.j = j - 1] /\ UNCHANGED rpc
             ELSE IF stop
                  THEN /\ rloc' = [rloc EXCEPT !.vorigins = org,
                                               !.valid = IF GWholeChain THEN org = rloc.origins
                                                         ELSE org[1] = rloc.origins[1]]
                       /\ rpc' = "done"
                  ELSE /\ rloc' = [rloc EXCEPT !.vorigins = org, !.j = j - 1] /\ UNCHANGED rpc
  /\ UNCHANGED <<script, entry, wpc>>

Finished == WritersDone /\ rpc = "done"
Next == (\E j \in W : HE_Record(j) \/ HE_Invalidate(j)) \/ HE_Snapshot \/ (Finished /\ UNCHANGED vars)
Spec == Init /\ [][Next]_vars /\ WF_vars(Next)

(* in-order value before the reader: every writer contributes the effect of its LAST incarnation
   (the record operation with the largest incarnation in its script), whatever order the
   publications and invalidations of older incarnations arrive in                                *)
FinalOp(j) == LET ops == script.ops[j + 1]
                  R == {i \in 1..Len(ops) : ops[i].op = "rec"}
                  m == CHOOSE i \in R : \A x \in R : ops[x].inc <= ops[i].inc
              IN ops[m]
RECURSIVE RefFrom(_, _)
RefFrom(j, b) == IF j = NTx THEN b
                 ELSE LET e == FinalOp(j) IN
                      RefFrom(j + 1, IF e.k = "reward" THEN AddTo(b, e.v) ELSE IF e.k = "snap" THEN e.v ELSE b)
RefValue == RefFrom(0, script.anchor)
FinalEntries == \A j \in W : entry[j].k # "est" /\ entry[j].inc = FinalOp(j).inc

(* C07: a read that passes the decisive validation observed exactly the preceding credits *)
ValidatedReadExact == (rpc = "done" /\ rloc.valid) => rloc.value = RefValue
(* a stale publication or a delayed invalidation never replaces / removes the newest incarnation *)
NewestWins == WritersDone => \A j \in W : entry[j].inc = FinalOp(j).inc /\ (FinalOp(j).k # "est" => entry[j].k = FinalOp(j).k)
=============================================================================
