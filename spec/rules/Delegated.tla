----------------------------- MODULE Delegated -----------------------------
(* Rules of grevm's two opt-in EIP-7702 delegated-account policies, written as operators over
   small cases; TLC enumerates the cases and prints each with its expected observable, the harness
   realises every case with real bytecode / authorisations and compares (C12, C13, C06).

   Part 1 - delegated-CREATE guard (src/delegated_safety/instructions.rs:14-49,
            scheduler/executor.rs:138-142): with the guard on and spec >= Prague, CREATE / CREATE2
            executed in a frame whose context account carries a delegation designator halt that
            frame (NotActivated); everything else is stock revm.
   Part 2 - delegated-balance reserve (delegated_safety/handler.rs:310-408, reserve.rs:60-129):
            a transaction whose surviving value transfers out of a delegated account leave it with
            less than  min(balance before the first such debit, sum of the maximum costs of its own
            later transactions)  becomes a charged top-level revert.                              *)
EXTENDS Integers, Sequences, FiniteSets, TLC, Json

(* ------------------------------- Part 1 ------------------------------- *)
Shapes == {"top_delegated", "nested_delegated", "delegatecall_from_ordinary", "ordinary_self",
           "static_into_delegated", "create_transaction"}
(* is the frame that executes CREATE one whose context account carries a designator? *)
ContextDelegated(shape) == shape \in {"top_delegated", "nested_delegated", "static_into_delegated"}
Static(shape) == shape = "static_into_delegated"
GuardActive(guard, prague) == guard /\ prague

(* what the creating frame does *)
FrameResult(shape, guard, prague) ==
  IF Static(shape) THEN "state_change_during_static_call"          \* as stock revm, checked first
  ELSE IF GuardActive(guard, prague) /\ ContextDelegated(shape) THEN "halt_not_activated"
  ELSE "creates"
(* what the transaction reports *)
TxKind(shape, guard, prague) ==
  IF shape = "top_delegated" /\ FrameResult(shape, guard, prague) = "halt_not_activated" THEN "halt" ELSE "success"
(* does the delegated account's nonce advance (which would invalidate its own later transaction)? *)
NonceAdvanced(shape, guard, prague) ==
  ContextDelegated(shape) /\ FrameResult(shape, guard, prague) = "creates"
(* success flag an enclosing caller stores for the inner call *)
InnerCallFlag(shape, guard, prague) == IF FrameResult(shape, guard, prague) = "creates" THEN 1 ELSE 0

CreateCases ==
  { [shape |-> s, create2 |-> c, guard |-> g, prague |-> p,
     frame |-> FrameResult(s, g, p), kind |-> TxKind(s, g, p), nonce_advanced |-> NonceAdvanced(s, g, p),
     flag |-> InnerCallFlag(s, g, p)] : s \in Shapes, c \in BOOLEAN, g \in BOOLEAN, p \in BOOLEAN }

(* the guard changes nothing outside delegated contexts, and nothing at all before Prague or when off *)
GuardIsExact ==
  \A c \in CreateCases :
     (c.frame # FrameResult(c.shape, FALSE, c.prague)) => (c.guard /\ c.prague /\ ContextDelegated(c.shape) /\ ~Static(c.shape))
(* consequence: with the guard on, delegated code cannot advance the account's nonce *)
GuardProtectsNonce == \A c \in CreateCases : (c.guard /\ c.prague) => ~c.nonce_advanced

(* ------------------------------- Part 2 ------------------------------- *)
Min(a, b) == IF a < b THEN a ELSE b
RECURSIVE SumSeq(_)
SumSeq(s) == IF s = <<>> THEN 0 ELSE Head(s) + SumSeq(Tail(s))

(* one delegated account U: balance b; the transaction under test moves `send` out of U by delegated
   execution (after an optional credit of `credit` earlier in the same transaction); U's own later
   transactions of the block have maximum costs `later` (and actually spend them).                *)
RequiredAfter(later) == SumSeq(later)
Violates(b, credit, send, later) ==
  LET before == b + credit        \* balance immediately before the first protected debit
      final == b + credit - send
  IN final < Min(before, RequiredAfter(later))
Tx0Kind(b, credit, send, later, reserve) ==
  IF send > b + credit THEN "success"      \* the inner call fails for lack of funds: nothing moves
  ELSE IF reserve /\ Violates(b, credit, send, later) THEN "revert" ELSE "success"
BalanceAfterTx0(b, credit, send, later, reserve) ==
  IF send > b + credit THEN b + credit
  ELSE IF Tx0Kind(b, credit, send, later, reserve) = "revert" THEN b ELSE b + credit - send
(* U's later transactions in order: each is skipped exactly when the balance left cannot pay its maximum cost *)
RECURSIVE LaterKinds(_, _)
LaterKinds(bal, later) ==
  IF later = <<>> THEN <<>>
  ELSE IF bal >= Head(later) THEN <<"success">> \o LaterKinds(bal - Head(later), Tail(later))
       ELSE <<"skipped">> \o LaterKinds(bal, Tail(later))

Costs == {21001}
ReserveCases ==
  { [balance |-> b, credit |-> 0, send |-> s, later |-> l, reserve |-> r,
     kind0 |-> Tx0Kind(b, 0, s, l, r), later_kinds |-> LaterKinds(BalanceAfterTx0(b, 0, s, l, r), l),
     final |-> BalanceAfterTx0(b, 0, s, l, r) - SumSeq([i \in 1..Len(l) |-> IF LaterKinds(BalanceAfterTx0(b, 0, s, l, r), l)[i] = "success" THEN l[i] ELSE 0])]
    : b \in {42002, 63003, 210010}, s \in {1, 21001, 21002, 42002}, l \in {<<>>, <<21001>>, <<21001, 21001>>}, r \in BOOLEAN }

(* the consequence the property states: an account that can pay for all its block transactions at
   block start is never skipped for lack of funds because of delegated execution (reserve on)      *)
ReserveKeepsFundable ==
  \A c \in ReserveCases :
     (c.reserve /\ c.balance >= SumSeq(c.later)) => \A i \in 1..Len(c.later_kinds) : c.later_kinds[i] = "success"
(* and the policy is inert when it has nothing to protect *)
ReserveInertWithoutLaterTxs ==
  \A c \in ReserveCases : c.later = <<>> => c.kind0 = Tx0Kind(c.balance, 0, c.send, c.later, FALSE)

ASSUME PrintT(<<"CASES", ToJson([create |-> CreateCases, reserve |-> ReserveCases])>>)
ASSUME GuardIsExact /\ GuardProtectsNonce /\ ReserveKeepsFundable /\ ReserveInertWithoutLaterTxs

VARIABLE x
Init == x = 0
Next == x' = x
=============================================================================
