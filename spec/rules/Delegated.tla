----------------------------- MODULE Delegated -----------------------------
(* Rules of grevm's two opt-in EIP-7702 delegated-account policies, written as operators over
   small cases; TLC enumerates the cases and prints each with its expected observable, the harness
   realises every case with real bytecode / authorisations and compares (C12, C13, C06).

   Part 1 - delegated-CREATE guard (src/delegated_safety/instructions.rs:14-49,
            scheduler/executor.rs:138-142): with the guard on and spec >= Prague, CREATE / CREATE2
            executed in a frame whose context account carries a delegation designator halt that
            frame (NotActivated); everything else is stock revm.
   Part 2 - delegated-balance reserve (delegated_safety/handler.rs:310-408, reserve.rs:60-129):
            a transaction whose surviving value transfers out of a delegated account leave it with
            less than  min(balance before the first such debit, sum of the maximum costs of its own
            later transactions)  becomes a charged top-level revert.                              *)
EXTENDS Integers, Sequences, FiniteSets, TLC, Json

(* ------------------------------- Part 1 ------------------------------- *)
(* A case is a call path that ends in a frame executing CREATE / CREATE2:
     <<e>>        the transaction calls e directly,
     <<t, k, e>>  the transaction calls t, whose code makes one hop of kind k to e,
     <<"tx">>     a top-level create transaction (no executing frame owns the create).
   U, U2 are EOAs that carry a delegation designator (U -> forwarder code, U2 -> creator code);
   F is the ordinary forwarder contract, T the ordinary creator contract.
   EVM frame rule: CALL / STATICCALL run the callee's code in the callee's context; DELEGATECALL /
   CALLCODE run the callee's code in the caller's context. The guard looks at the CONTEXT account. *)
Kinds == {"CALL", "DELEGATECALL", "CALLCODE", "STATICCALL"}
Tops == {"U", "F"}
Ends == {"U2", "T"}
Paths == {<<e>> : e \in Ends} \cup {<<t, k, e>> : t \in Tops, k \in Kinds, e \in Ends} \cup {<<"tx">>}
Forks == {"CANCUN", "PRAGUE", "OSAKA", "AMSTERDAM"}
PragueOrLater(f) == f # "CANCUN"
HasDesignator(a, f) == a \in {"U", "U2"}       \* the designator is in the pre-state on every fork
ContextOf(p) == IF Len(p) = 1 THEN p[1] ELSE IF p[2] \in {"DELEGATECALL", "CALLCODE"} THEN p[1] ELSE p[3]
Static(p) == Len(p) = 3 /\ p[2] = "STATICCALL"
ContextDelegated(p, f) == p # <<"tx">> /\ HasDesignator(ContextOf(p), f)
GuardActive(guard, f) == guard /\ PragueOrLater(f)

(* what the creating frame does *)
FrameResult(p, guard, f) ==
  IF Static(p) THEN "state_change_during_static_call"          \* as stock revm
  ELSE IF GuardActive(guard, f) /\ ContextDelegated(p, f) THEN "halt_not_activated"
  ELSE "creates"                                                     \* i.e. whatever stock revm does
Halts(p, guard, f) == FrameResult(p, guard, f) = "halt_not_activated"
(* does the context account's nonce advance (for a delegated EOA that invalidates its own later transaction)? *)
NonceAdvanced(p, guard, f) == p # <<"tx">> /\ FrameResult(p, guard, f) = "creates"

CreateCases ==
  { [path |-> p, create2 |-> c, guard |-> g, fork |-> f, context |-> IF p = <<"tx">> THEN "none" ELSE ContextOf(p),
     frame |-> FrameResult(p, g, f), halts |-> Halts(p, g, f),
     context_delegated |-> ContextDelegated(p, f), nonce_advanced |-> NonceAdvanced(p, g, f)]
    : p \in Paths, c \in BOOLEAN, g \in BOOLEAN, f \in Forks }

(* the guard changes nothing outside delegated contexts, and nothing at all before Prague or when off *)
GuardIsExact ==
  \A c \in CreateCases :
     (c.frame # FrameResult(c.path, FALSE, c.fork)) <=> (c.guard /\ PragueOrLater(c.fork) /\ c.context_delegated /\ ~Static(c.path))
(* consequence: with the guard on, delegated code cannot advance a delegated account's nonce *)
GuardProtectsNonce == \A c \in CreateCases : (c.guard /\ PragueOrLater(c.fork) /\ c.context_delegated) => ~c.nonce_advanced

(* ------------------------------- Part 2 ------------------------------- *)
Min(a, b) == IF a < b THEN a ELSE b
RECURSIVE SumSeq(_)
SumSeq(s) == IF s = <<>> THEN 0 ELSE Head(s) + SumSeq(Tail(s))

(* one delegated account U: balance b; the transaction under test moves `send` out of U by delegated
   execution (after an optional credit of `credit` earlier in the same transaction); U's own later
   transactions of the block have maximum costs `later` (and actually spend them).                *)
RequiredAfter(later) == SumSeq(later)
Violates(b, credit, send, later) ==
  LET before == b + credit        \* balance immediately before the first protected debit
      final == b + credit - send
  IN final < Min(before, RequiredAfter(later))
Tx0Kind(b, credit, send, later, reserve) ==
  IF send > b + credit THEN "success"      \* the inner call fails for lack of funds: nothing moves
  ELSE IF reserve /\ Violates(b, credit, send, later) THEN "revert" ELSE "success"
BalanceAfterTx0(b, credit, send, later, reserve) ==
  IF send > b + credit THEN b + credit
  ELSE IF Tx0Kind(b, credit, send, later, reserve) = "revert" THEN b ELSE b + credit - send
(* U's later transactions in order: each is skipped exactly when the balance left cannot pay its maximum cost *)
RECURSIVE LaterKinds(_, _)
LaterKinds(bal, later) ==
  IF later = <<>> THEN <<>>
  ELSE IF bal >= Head(later) THEN <<"success">> \o LaterKinds(bal - Head(later), Tail(later))
       ELSE <<"skipped">> \o LaterKinds(bal, Tail(later))

Costs == {21001}
ReserveCases ==
  { [balance |-> b, credit |-> 0, send |-> s, later |-> l, reserve |-> r,
     kind0 |-> Tx0Kind(b, 0, s, l, r), later_kinds |-> LaterKinds(BalanceAfterTx0(b, 0, s, l, r), l),
     final |-> BalanceAfterTx0(b, 0, s, l, r) - SumSeq([i \in 1..Len(l) |-> IF LaterKinds(BalanceAfterTx0(b, 0, s, l, r), l)[i] = "success" THEN l[i] ELSE 0])]
    : b \in {42002, 63003, 210010}, s \in {1, 21001, 21002, 42002}, l \in {<<>>, <<21001>>, <<21001, 21001>>}, r \in BOOLEAN }

(* the consequence the property states: an account that can pay for all its block transactions at
   block start is never skipped for lack of funds because of delegated execution (reserve on)      *)
ReserveKeepsFundable ==
  \A c \in ReserveCases :
     (c.reserve /\ c.balance >= SumSeq(c.later)) => \A i \in 1..Len(c.later_kinds) : c.later_kinds[i] = "success"
(* and the policy is inert when it has nothing to protect *)
ReserveInertWithoutLaterTxs ==
  \A c \in ReserveCases : c.later = <<>> => c.kind0 = Tx0Kind(c.balance, 0, c.send, c.later, FALSE)

ASSUME PrintT(<<"CASES", ToJson([create |-> CreateCases, reserve |-> ReserveCases])>>)
ASSUME GuardIsExact /\ GuardProtectsNonce /\ ReserveKeepsFundable /\ ReserveInertWithoutLaterTxs

VARIABLE x
Init == x = 0
Next == x' = x
=============================================================================
