----------------------------- MODULE Lifecycle -----------------------------
(* In-block life cycle of one account X as later transactions of the block must see it (C08, and the
   sequential clause of C10): deletion, creation, re-creation, funding, storage writes.

   X is the CREATE2 address of a factory; its code (when it has one) is an actor that, depending on
   the calldata, stores a slot, self-destructs, or does nothing. Three images of X in the backing
   database:  "indb"   a contract with storage {0: 21, 3: 23}, nonce 1, balance 9;
              "funded" a code-less account with balance 4, nonce 0 (somebody pre-funded the address);
              "absent" not in the database.
   Every operation is one transaction of the block. The rule gives, after every transaction, what
   any later transaction must observe: existence, code, nonce, balance and the slots 0, 1, 3 - in
   particular ZERO for every slot the current incarnation of the account did not write, whatever
   the database still holds for an earlier incarnation.

   TLC evaluates the rule on every operation sequence up to length 4 and writes the cases; the
   harness applies each case transaction by transaction to stock revm State and to ParallelState:
   revm State must agree with the rule (binding of the rule to the EVM), ParallelState must agree
   with both.                                                                                     *)
EXTENDS Integers, Sequences, SequencesExt, FiniteSets, TLC, Json, IOUtils

Slots == {0, 1, 3}
Ops == {"destroy", "fund", "create", "store0", "clear1", "store3", "touch"}
Forks == {"shanghai", "cancun"}        \* SELFDESTRUCT deletes / only moves the balance (EIP-6780)
Images == {"indb", "funded", "absent"}

Empty == [s \in Slots |-> 0]
Gone == [exists |-> FALSE, code |-> FALSE, nonce |-> 0, bal |-> 0, st |-> Empty]
Image(i) ==
  CASE i = "indb" -> [exists |-> TRUE, code |-> TRUE, nonce |-> 1, bal |-> 9, st |-> (0 :> 21 @@ 1 :> 0 @@ 3 :> 23)]
    [] i = "funded" -> [exists |-> TRUE, code |-> FALSE, nonce |-> 0, bal |-> 4, st |-> Empty]
    [] OTHER -> Gone

Apply(a, op, f) ==
  CASE op = "destroy" ->                       \* call with the self-destruct selector
         IF ~a.code THEN a
         ELSE IF f = "shanghai" THEN Gone        \* the account and ALL its storage are gone for later transactions
         ELSE [a EXCEPT !.bal = 0]               \* Cancun: only the balance moves (not created in this transaction)
    [] op = "fund" -> [a EXCEPT !.exists = TRUE, !.bal = @ + 3]        \* plain value transfer (the actor ignores empty calldata)
    [] op = "create" ->                         \* CREATE2 by the factory; the constructor stores slot 1 := 7
         IF a.code \/ a.nonce # 0 THEN a         \* address collision: the create fails, nothing changes
         ELSE [exists |-> TRUE, code |-> TRUE, nonce |-> 1, bal |-> a.bal, st |-> (0 :> 0 @@ 1 :> 7 @@ 3 :> 0)]
    [] op = "store0" -> IF a.code THEN [a EXCEPT !.st[0] = 5] ELSE a
    [] op = "clear1" -> IF a.code THEN [a EXCEPT !.st[1] = 0] ELSE a
    [] op = "store3" -> IF a.code THEN [a EXCEPT !.st[3] = 8] ELSE a
    [] op = "touch" -> a                        \* zero-value call without calldata

RECURSIVE Run(_, _, _)
Run(a, ops, f) == IF ops = <<>> THEN <<>> ELSE LET b == Apply(a, Head(ops), f) IN <<b>> \o Run(b, Tail(ops), f)

Seqs(n) == UNION {[1..k -> Ops] : k \in 1..n}
Obs(a) == [exists |-> a.exists, code |-> a.code, nonce |-> a.nonce, bal |-> a.bal, s0 |-> a.st[0], s1 |-> a.st[1], s3 |-> a.st[3]]
Case(i, f, ops) == [image |-> i, fork |-> f, ops |-> ops, expect |-> [k \in 1..Len(ops) |-> Obs(Run(Image(i), ops, f)[k])]]
Cases == {Case(i, f, ops) : i \in Images, f \in Forks, ops \in Seqs(4)}

(* ---- consequences (the statements of C08 about storage), over every case ---- *)
Final(c) == c.expect[Len(c.expect)]
(* after a deletion nothing of the old storage is ever visible again, whatever happens afterwards *)
DeletedStorageStaysGone ==
  \A c \in Cases : (c.fork = "shanghai" /\ c.image = "indb" /\ \E k \in 1..Len(c.ops) : c.ops[k] = "destroy" /\ (k = 1 \/ c.expect[k - 1].code))
                   => (Final(c).s3 \in {0, 8} /\ Final(c).s0 \in {0, 5})
(* a created account has exactly the storage its constructor and later transactions wrote *)
CreatedStorageIsOwn ==
  \A c \in Cases : \A k \in 1..Len(c.ops) :
     (c.ops[k] = "create" /\ c.expect[k].code /\ (k = 1 \/ ~c.expect[k - 1].code) /\ ~(k = 1 /\ c.image = "indb"))
        => (c.expect[k].s0 = 0 /\ c.expect[k].s1 = 7 /\ c.expect[k].s3 = 0)
(* the family is not vacuous: re-creation after deletion over non-empty database storage occurs *)
NotVacuous == \E c \in Cases : c.image = "indb" /\ c.fork = "shanghai" /\ Len(c.ops) >= 2 /\ c.ops[1] = "destroy" /\ c.ops[2] = "create" /\ c.expect[2].code

ASSUME DeletedStorageStaysGone /\ CreatedStorageIsOwn /\ NotVacuous
ASSUME JsonSerialize(IOEnv.OUT, SetToSeq(Cases))

VARIABLE x
Init == x = 0
Next == x' = x
=============================================================================
