------------------------------- MODULE Grevm -------------------------------
(* The grevm block scheduler (src/scheduler.rs and the components it drives): N speculative
   workers, one finality coordinator, one ordered-commit thread and the calling thread, at the
   grain of the implementation's SCHED hook points - one action per critical section / atomic
   operation; the action name is the hook label and the `l` field of a trace record.

   Shared state as in the code:
     status, inc, hint, txLock      tx_states[i] (parking_lot::Mutex held across a whole attempt)
     result                         tx_results[i]
     mv                             multi-version memory (one entry per location and writer)
     onboard, dep, affects, execIdx TxDependency (refined operation by operation in TxDep.tla)
     valIdx, finIdx, comIdx         validation (rewindable), finality and committed cursors
     executed                       ExecutionFrontier flags; the frontier itself is the executed prefix
                                    (its lock-free maintenance is Cursor.tla)
     clock, lowerTs, unconfTs       logical clock, rewind and validation timestamps
     abort, abortReason, abortTx    cancellation flag and first abort cause
     slot                           WaitSlot of the two coordinators (registered, park token)
     cstate, outcomes               committed state (cache + database collapsed, see Cache.tla) and outcomes
   Transactions are programs over a few locations (GrevmProg below); in trace mode the reads,
   values and effects come from the recorded events instead (TraceMode).

   Guard switches G.. (all TRUE = the implementation as read) are documented in DESIGN.md 5.4.   *)
EXTENDS Integers, FiniteSets, Sequences, TLC

CONSTANTS Workers,      \* e.g. {"w0", "w1"}
          Blocks,       \* set of block records (MC) - a trace run takes its block from the header
          TraceMode,    \* reads / values / effects come from trace records, not from programs
          GStrictBefore, GEstBlocks, GValEst, GValVersion, GValStorage, GTsBeforeScan, GRewindNew,
          GRewindConflict, GMarkEstimate, GRemoveStale, GFinStatus, GFinCursor, GFinTs, GFinCarry,
          GCommitOrder, GHeadOnly, GNotifyFin, GNotifyCom, GNotifyBatch, GNotifyCancel, GKeyLive,
          GCommitRelease, GFallbackStart, GResetMasks, GCreatedWins,
          GNonceReplay, \* with nonce checking on, an error of an attempt at the commit head is revalidated in order
                        \* instead of deciding the block (fix 32e7315: the attempt ran with the nonce check off)
          GHeadAtStart  \* the commit-head test of a failed attempt uses the boundary sampled when the
                        \* attempt started (the "fix:" for finding F2); FALSE = sampled when the error is handled

VARIABLES block, status, inc, hint, txLock, result, mv, onboard, dep, affects, execIdx,
          valIdx, finIdx, comIdx, executed, clock, lowerTs, unconfTs,
          abort, abortReason, abortTx, slot, cstate, outcomes, returned, pc, loc

vars == <<block, status, inc, hint, txLock, result, mv, onboard, dep, affects, execIdx,
          valIdx, finIdx, comIdx, executed, clock, lowerTs, unconfTs,
          abort, abortReason, abortTx, slot, cstate, outcomes, returned, pc, loc>>

MaxN == IF TraceMode THEN 12 ELSE 4
Tx == 0..(MaxN - 1)
N == block.n
Locs == block.locs                 \* set of location names
Threads == Workers \cup {"fin", "com", "main"}
Min(a, b) == IF a < b THEN a ELSE b
Max(a, b) == IF a > b THEN a ELSE b
MaxSet(S) == CHOOSE m \in S : \A x \in S : x <= m

(* ------------------------------------------------------------------------------------------ *)
(* Transaction programs (model-checking mode)                                                  *)
(*   <<"r", loc, reg>>            reg := value of loc (own earlier write first)                 *)
(*   <<"w", loc, reg, add>>       loc := regs[reg] + add   (reg = 0: the constant add)          *)
(*   <<"jeq", reg, v, target>>    if regs[reg] = v then continue at instruction target         *)
(*   <<"fail", kind>>             kind \in {"invalid", "fatal"}                                 *)
(* falling off the end is a successful execution                                               *)
(* ------------------------------------------------------------------------------------------ *)
Regs == 1..2
NoW == -1
(* storage-reset marker of a slot location ("none": the location is not a slot of a resettable account);
   blocks without deletions / creations simply have no resetOf field                             *)
ResetOf(l) == IF "resetOf" \in DOMAIN block THEN block.resetOf[l] ELSE "none"
IsResetLoc(l) == "resetOf" \in DOMAIN block /\ \E x \in DOMAIN block.resetOf : block.resetOf[x] = l
Zero == IF TraceMode THEN "0" ELSE 0
RegVal(regs, r) == IF r = 0 THEN 0 ELSE regs[r]

(* Sender nonces. Workers execute with the sender-nonce check off; ordered commit re-checks the nonce (C_Nonce)
   unless nonce checking is disabled for the block. In the model a transaction whose nonce is wrong in block order
   is a program that starts with <<"badnonce">>: in order it is rejected before it executes anything (skipped), a
   worker runs its body regardless.                                                                            *)
NonceChecked == IF "nonceCheck" \in DOMAIN block THEN block.nonceCheck ELSE TRUE
BadNonce(prog) == NonceChecked /\ prog # <<>> /\ prog[1][1] = "badnonce"
Body(prog) == IF prog # <<>> /\ prog[1][1] = "badnonce" THEN Tail(prog) ELSE prog      \* jump targets count from the body

RECURSIVE RunLocal(_, _, _, _)
RunLocal(prog, ip, regs, wbuf) ==
  IF ip > Len(prog) THEN [ip |-> ip, regs |-> regs, wbuf |-> wbuf, st |-> "ok"]
  ELSE LET ins == prog[ip] IN
    CASE ins[1] = "r" ->
           IF wbuf[ins[2]] # NoW
           THEN RunLocal(prog, ip + 1, [regs EXCEPT ![ins[3]] = wbuf[ins[2]]], wbuf)
           ELSE IF ResetOf(ins[2]) # "none" /\ wbuf[ResetOf(ins[2])] # NoW
                THEN RunLocal(prog, ip + 1, [regs EXCEPT ![ins[3]] = 0], wbuf)     \* own deletion / creation masks the slot
                ELSE [ip |-> ip, regs |-> regs, wbuf |-> wbuf, st |-> "read"]
      [] ins[1] = "reset" ->   \* delete or (re-)create the account: marker written, earlier own slot writes dropped
           RunLocal(prog, ip + 1, regs, [l \in DOMAIN wbuf |-> IF l = ins[2] THEN 1 ELSE IF ResetOf(l) = ins[2] THEN NoW ELSE wbuf[l]])
      [] ins[1] = "w" -> RunLocal(prog, ip + 1, regs, [wbuf EXCEPT ![ins[2]] = RegVal(regs, ins[3]) + ins[4]])
      [] ins[1] = "jeq" -> RunLocal(prog, IF regs[ins[2]] = ins[3] THEN ins[4] ELSE ip + 1, regs, wbuf)
      [] OTHER -> [ip |-> ip, regs |-> regs, wbuf |-> wbuf, st |-> ins[2]]

EmptyW == [l \in Locs |-> NoW]
ZeroRegs == [r \in Regs |-> 0]

(* in-order execution of one program against a state *)
RECURSIVE RefFrom(_, _, _)
RefFrom(prog, c, st) ==
  IF c.st = "read"
  THEN LET ins == prog[c.ip] IN
       RefFrom(prog, RunLocal(prog, c.ip + 1, [c.regs EXCEPT ![ins[3]] = st[ins[2]]], c.wbuf), st)
  ELSE c
RefExec(prog, st) ==
  IF BadNonce(prog) THEN [ip |-> 1, regs |-> ZeroRegs, wbuf |-> EmptyW, st |-> "invalid"]
  ELSE RefFrom(Body(prog), RunLocal(Body(prog), 1, ZeroRegs, EmptyW), st)
Apply(st, wbuf) == [l \in Locs |-> IF wbuf[l] # NoW THEN wbuf[l]
                                    ELSE IF ResetOf(l) # "none" /\ wbuf[ResetOf(l)] # NoW THEN 0 ELSE st[l]]

(* reference run: state before tx k, outcome kind of tx k, first fatal index (or n) *)
RECURSIVE RefState(_)
RefState(k) ==
  IF TraceMode THEN block.ref[k + 1]      \* trace header: in-order stock-revm states
  ELSE IF k = 0 THEN block.pre
  ELSE LET s == RefState(k - 1)  e == RefExec(block.progs[k], s) IN
       IF e.st = "ok" THEN Apply(s, e.wbuf) ELSE s
RefKind(k) == IF TraceMode THEN (IF k >= block.fatal_at THEN "fatal" ELSE IF block.refkind[k + 1] = "executed" THEN "ok" ELSE "invalid")
              ELSE RefExec(block.progs[k + 1], RefState(k)).st         \* k is 0-based
RefW(k) == RefExec(block.progs[k + 1], RefState(k)).wbuf
FatalAt == IF TraceMode THEN block.fatal_at ELSE LET F == {k \in 0..(N - 1) : RefKind(k) = "fatal"} IN IF F = {} THEN N ELSE CHOOSE k \in F : \A j \in F : k <= j
RefOutcome(k) == IF RefKind(k) = "ok" THEN "executed" ELSE "skipped"

(* ------------------------------------------------------------------------------------------ *)
NoEntry == [has |-> FALSE, inc |-> 0, val |-> 0, est |-> FALSE]
NoVer == [k |-> "none", tx |-> -1, inc |-> 0]
StVer == [k |-> "st", tx |-> -1, inc |-> 0]
InitFor(b) ==
  /\ block = b
  /\ status = [i \in Tx |-> "Initial"] /\ inc = [i \in Tx |-> 0] /\ hint = [i \in Tx |-> -1]
  /\ txLock = [i \in Tx |-> "free"]
  /\ result = [i \in Tx |-> [has |-> FALSE, kind |-> "none", rs |-> [l \in b.locs |-> NoVer],
                             rv |-> [l \in b.locs |-> 0], ws |-> {}, wv |-> [l \in b.locs |-> 0]]]
  /\ mv = [l \in b.locs |-> [i \in Tx |-> NoEntry]]
  /\ onboard = [i \in Tx |-> TRUE] /\ dep = [i \in Tx |-> -1] /\ affects = [i \in Tx |-> {}] /\ execIdx = 0
  /\ valIdx = 0 /\ finIdx = 0 /\ comIdx = 0 /\ executed = [i \in Tx |-> FALSE]
  /\ clock = 1 /\ lowerTs = [i \in Tx |-> 0] /\ unconfTs = [i \in Tx |-> 0]
  /\ abort = FALSE /\ abortReason = "none" /\ abortTx = -1
  /\ slot = [s \in {"fin", "com"} |-> [reg |-> FALSE, token |-> FALSE]]
  /\ cstate = b.pre /\ outcomes = <<>> /\ returned = "none"
  /\ pc = [t \in Threads |-> IF t = "main" THEN "m_start" ELSE "off"]
  /\ loc = [t \in Threads |->
             [tx |-> -1, inc |-> 0, ip |-> 1, regs |-> ZeroRegs, wbuf |-> [l \in b.locs |-> NoW], st |-> "none",
              rs |-> [l \in b.locs |-> NoVer], rv |-> [l \in b.locs |-> 0], blockers |-> {}, topub |-> {},
              pubd |-> {}, todo |-> {}, conflict |-> FALSE, newloc |-> FALSE, next |-> -1, ts |-> 0,
              rwidx |-> -1, after |-> "none", kind |-> "none", scan |-> {}, hintv |-> -1,
              f |-> 0, lower |-> 0, batch0 |-> 0, ctx |-> "loop", eff |-> 0, c |-> 0, prog0 |-> 0,
              k |-> 0, reason |-> "none", atx |-> -1, ret |-> "none", npc |-> "none"]]

Init == \E b \in Blocks : InitFor(b)

(* locals of a thread between tasks: everything an earlier task left behind is forgotten, so that
   states differing only in dead locals coincide                                                *)
IdleLoc == [tx |-> -1, inc |-> 0, ip |-> 1, regs |-> [r \in 1..2 |-> 0], wbuf |-> [l \in block.locs |-> -1], st |-> "none",
            rs |-> [l \in block.locs |-> [k |-> "none", tx |-> -1, inc |-> 0]], rv |-> [l \in block.locs |-> 0],
            blockers |-> {}, topub |-> {},
            pubd |-> {}, todo |-> {}, conflict |-> FALSE, newloc |-> FALSE, next |-> -1, ts |-> 0,
            rwidx |-> -1, after |-> "none", kind |-> "none", scan |-> {}, hintv |-> -1,
            f |-> 0, lower |-> 0, batch0 |-> 0, ctx |-> "loop", eff |-> 0, c |-> 0, prog0 |-> 0,
            k |-> 0, reason |-> "none", atx |-> -1, ret |-> "none", npc |-> "none"]
ToIdle(w) == loc' = [loc EXCEPT ![w] = IdleLoc]

Goto(t, p) == pc' = [pc EXCEPT ![t] = p]
(* run_worker: after a task returned no follow-up task it asks next() only if not aborted; the
   abort flag is read in the same atomic block as the task's last step                          *)
TaskDone == IF abort THEN "done" ELSE "w_loop"
Frontier == LET S == {k \in 0..N : \A j \in 0..(k - 1) : executed[j]} IN MaxSet(S)

(* latest entry strictly before tx i (GStrictBefore = FALSE: at or before) *)
Writers(l, i) == {j \in Tx : mv[l][j].has /\ (IF GStrictBefore THEN j < i ELSE j <= i)}
Resolve(l, i) == IF Writers(l, i) = {} THEN NoVer ELSE [k |-> "mv", tx |-> MaxSet(Writers(l, i)), inc |-> mv[l][MaxSet(Writers(l, i))].inc]

(* ======================================= main thread ======================================= *)
M_Start ==   \* run_once won; config selects the parallel path; beneficiary preload (not modelled)
  /\ pc["main"] = "m_start"
  /\ pc' = [t \in Threads |-> IF t = "main" THEN "m_join" ELSE IF t = "fin" THEN "f_register"
                              ELSE IF t = "com" THEN "c_register" ELSE "w_loop"]
  /\ UNCHANGED <<block, status, inc, hint, txLock, result, mv, onboard, dep, affects, execIdx, valIdx,
                 finIdx, comIdx, executed, clock, lowerTs, unconfTs, abort, abortReason, abortTx, slot,
                 cstate, outcomes, returned, loc>>

ChildrenDone == \A t \in Threads \ {"main"} : pc[t] = "done"

M_StartSeq ==   \* force_sequential / block below min_parallel_txs: the whole block is replayed in order (fallback.rs)
  /\ pc["main"] = "m_start"
  /\ Goto("main", "s_tx") /\ loc' = [loc EXCEPT !["main"].k = 0]
  /\ UNCHANGED <<block, status, inc, hint, txLock, result, mv, onboard, dep, affects, execIdx, valIdx,
                 finIdx, comIdx, executed, clock, lowerTs, unconfTs, abort, abortReason, abortTx, slot,
                 cstate, outcomes, returned>>

M_Join ==    \* joins returned; install_commit_loop_result; post_execute picks the branch
  /\ pc["main"] = "m_join" /\ ChildrenDone
  /\ IF ~abort THEN returned' = "ok" /\ Goto("main", "done") /\ UNCHANGED loc
     ELSE CASE abortReason = "fatal" ->
                 /\ returned' = IF result[abortTx].has /\ result[abortTx].kind = "fatal" THEN "err" ELSE returned
                 /\ IF result[abortTx].has /\ result[abortTx].kind = "fatal"
                    THEN Goto("main", "done") /\ loc' = [loc EXCEPT !["main"].k = abortTx]
                    ELSE Goto("main", "s_tx") /\ loc' = [loc EXCEPT !["main"].k = IF GFallbackStart THEN comIdx ELSE 0]
            [] OTHER ->
                 /\ UNCHANGED returned
                 /\ Goto("main", "s_tx") /\ loc' = [loc EXCEPT !["main"].k = IF GFallbackStart THEN comIdx ELSE 0]
  /\ UNCHANGED <<block, status, inc, hint, txLock, result, mv, onboard, dep, affects, execIdx, valIdx,
                 finIdx, comIdx, executed, clock, lowerTs, unconfTs, abort, abortReason, abortTx, slot,
                 cstate, outcomes>>

S_Tx ==      \* one transaction of the sequential suffix replay (fallback.rs)
  /\ pc["main"] = "s_tx"
  /\ LET k == loc["main"].k IN
     IF k >= N THEN returned' = "ok" /\ Goto("main", "done") /\ UNCHANGED <<cstate, outcomes, loc>>
     ELSE LET e == IF TraceMode THEN [st |-> RefKind(k), wbuf |-> EmptyW] ELSE RefExec(block.progs[k + 1], cstate) IN
          CASE e.st = "ok" -> /\ cstate' = IF TraceMode THEN RefState(k + 1) ELSE Apply(cstate, e.wbuf)
                              /\ outcomes' = Append(outcomes, [tx |-> k, kind |-> "executed", wv |-> e.wbuf])
                              /\ loc' = [loc EXCEPT !["main"].k = k + 1] /\ UNCHANGED <<returned, pc>>
            [] e.st = "invalid" -> /\ outcomes' = Append(outcomes, [tx |-> k, kind |-> "skipped", wv |-> EmptyW])
                                   /\ loc' = [loc EXCEPT !["main"].k = k + 1] /\ UNCHANGED <<returned, pc, cstate>>
            [] OTHER -> /\ returned' = "err" /\ Goto("main", "done") /\ UNCHANGED <<cstate, outcomes, loc>>
  /\ UNCHANGED <<block, status, inc, hint, txLock, result, mv, onboard, dep, affects, execIdx, valIdx,
                 finIdx, comIdx, executed, clock, lowerTs, unconfTs, abort, abortReason, abortTx, slot>>

(* ======================================= abort / notify ======================================= *)
(* abort(reason): A_Abort, then cancel(): A_Cancel, N_Notify(fin), N_Notify(com); afterwards the  *)
(* caller continues at loc.ret                                                                    *)
A_Abort(t) ==
  /\ pc[t] = "a_abort"
  /\ IF abortReason = "none"
     THEN abortReason' = loc[t].reason /\ abortTx' = loc[t].atx
     ELSE UNCHANGED <<abortReason, abortTx>>
  /\ Goto(t, "a_cancel")
  /\ UNCHANGED <<block, status, inc, hint, txLock, result, mv, onboard, dep, affects, execIdx, valIdx,
                 finIdx, comIdx, executed, clock, lowerTs, unconfTs, abort, slot, cstate, outcomes, returned, loc>>

A_Cancel(t) ==
  /\ pc[t] = "a_cancel"
  /\ abort' = TRUE
  /\ IF GNotifyCancel THEN Goto(t, "n_notify") /\ loc' = [loc EXCEPT ![t].npc = "cancel_fin"]
     ELSE Goto(t, loc[t].ret) /\ UNCHANGED loc
  /\ UNCHANGED <<block, status, inc, hint, txLock, result, mv, onboard, dep, affects, execIdx, valIdx,
                 finIdx, comIdx, executed, clock, lowerTs, unconfTs, abortReason, abortTx, slot, cstate,
                 outcomes, returned>>

(* lock_finality_candidate(f) returns at once, without touching shared state, when f = N *)
AfterPublish(f) ==
  IF f < N THEN "f_valload"
  ELSE IF f - loc["fin"].batch0 > 1 /\ GNotifyBatch THEN "n_batch" ELSE "f_loop"

(* npc says which notification this is and hence which slot and where to continue *)
NSlot(t) == IF loc[t].npc \in {"cancel_fin", "validate"} THEN "fin" ELSE "com"
N_Notify(t) ==
  /\ pc[t] = "n_notify"
  /\ slot' = [slot EXCEPT ![NSlot(t)].token = IF slot[NSlot(t)].reg THEN TRUE ELSE @]
  /\ CASE loc[t].npc = "cancel_fin" -> Goto(t, "n_notify") /\ loc' = [loc EXCEPT ![t].npc = "cancel_com"]
       [] loc[t].npc = "cancel_com" -> Goto(t, loc[t].ret) /\ UNCHANGED loc
       [] loc[t].npc = "validate" -> Goto(t, TaskDone) /\ ToIdle(t)
       [] loc[t].npc = "first" ->
            IF AfterPublish(loc[t].f) = "n_batch"
            THEN Goto(t, "n_notify") /\ loc' = [loc EXCEPT ![t].npc = "batch"]
            ELSE Goto(t, AfterPublish(loc[t].f)) /\ UNCHANGED loc
       [] OTHER -> Goto(t, "f_loop") /\ UNCHANGED loc        \* "batch"
  /\ UNCHANGED <<block, status, inc, hint, txLock, result, mv, onboard, dep, affects, execIdx, valIdx,
                 finIdx, comIdx, executed, clock, lowerTs, unconfTs, abort, abortReason, abortTx, cstate,
                 outcomes, returned>>

(* ======================================= dependency graph ======================================= *)
(* operations of TxDependency as single steps (TxDep.tla refines them) *)
DepRemove(i, pop) ==     \* returns the handed-over successor or -1
  LET rel == {d \in affects[i] : dep[d] = i}
      hand == IF pop /\ (i + 1) \in rel /\ onboard[i + 1] /\ execIdx > i + 1 THEN i + 1 ELSE -1
      rew == {d \in rel : onboard[d] /\ d # hand}
  IN [dep |-> [d \in Tx |-> IF d \in rel THEN -1 ELSE dep[d]],
      onboard |-> [d \in Tx |-> IF d = hand THEN FALSE ELSE onboard[d]],
      execIdx |-> IF rew = {} THEN execIdx ELSE Min(execIdx, CHOOSE m \in rew : \A x \in rew : m <= x),
      affects |-> [affects EXCEPT ![i] = {}],
      next |-> hand]

DepAdd(i, b) ==
  IF b # -1
  THEN [dep |-> [dep EXCEPT ![i] = b],
        onboard |-> [onboard EXCEPT ![i] = TRUE, ![b] = TRUE],
        affects |-> [affects EXCEPT ![b] = @ \cup {i}],
        execIdx |-> IF dep[b] = -1 THEN Min(execIdx, b) ELSE execIdx]
  ELSE IF ~onboard[i]
       THEN [dep |-> [dep EXCEPT ![i] = -1], onboard |-> [onboard EXCEPT ![i] = TRUE], affects |-> affects,
             execIdx |-> Min(execIdx, i)]
       ELSE [dep |-> dep, onboard |-> onboard, affects |-> affects, execIdx |-> execIdx]

(* ======================================= workers ======================================= *)
(* Model-checking mode compresses the read-only polling of an idle thread: a fruitless iteration
   (nothing to validate, nothing to execute) changes nothing, so the worker simply stays at
   "w_loop" until the claim or the cursor step is possible; finished / abort are monotone, so reading
   them together with the claim loses no behaviour.  Trace mode follows every recorded step.      *)
WExit == finIdx >= N \/ abort

CanClaim == valIdx < Min(execIdx, Frontier)

W_Loop(w) ==
  /\ pc[w] = "w_loop"
  /\ TraceMode \/ WExit
  /\ Goto(w, IF WExit THEN "done" ELSE "w_valclaim")
  /\ UNCHANGED <<block, status, inc, hint, txLock, result, mv, onboard, dep, affects, execIdx, valIdx,
                 finIdx, comIdx, executed, clock, lowerTs, unconfTs, abort, abortReason, abortTx, slot,
                 cstate, outcomes, returned, loc>>

W_ValClaim(w) ==
  /\ IF TraceMode THEN pc[w] = "w_valclaim" ELSE (pc[w] = "w_loop" /\ ~WExit /\ CanClaim)
  /\ IF valIdx < Min(execIdx, Frontier)
     THEN /\ valIdx' = valIdx + 1
          /\ loc' = [loc EXCEPT ![w].tx = valIdx]
          /\ Goto(w, "w_vallock")
     ELSE UNCHANGED <<valIdx, loc>> /\ Goto(w, "d_next")
  /\ UNCHANGED <<block, status, inc, hint, txLock, result, mv, onboard, dep, affects, execIdx,
                 finIdx, comIdx, executed, clock, lowerTs, unconfTs, abort, abortReason, abortTx, slot,
                 cstate, outcomes, returned>>

W_ValLock(w) ==
  /\ pc[w] = "w_vallock" /\ txLock[loc[w].tx] = "free"
  /\ LET i == loc[w].tx IN
     IF status[i] \in {"Executed", "Unconfirmed"}
     THEN /\ status' = [status EXCEPT ![i] = "Validating"]
          /\ loc' = [loc EXCEPT ![w].inc = inc[i]]
          /\ Goto(w, "v_begin")
     ELSE UNCHANGED status /\ ToIdle(w) /\ Goto(w, "d_next")
  /\ UNCHANGED <<block, inc, hint, txLock, result, mv, onboard, dep, affects, execIdx, valIdx,
                 finIdx, comIdx, executed, clock, lowerTs, unconfTs, abort, abortReason, abortTx, slot,
                 cstate, outcomes, returned>>

D_Next(w) ==
  /\ \/ pc[w] = "d_next"
     \/ (~TraceMode /\ pc[w] = "w_loop" /\ ~WExit /\ ~CanClaim /\ execIdx < N)
  /\ IF execIdx >= N
     THEN UNCHANGED <<execIdx, onboard, loc>> /\ Goto(w, "w_loop")
     ELSE /\ execIdx' = execIdx + 1
          /\ IF onboard[execIdx] /\ dep[execIdx] = -1
             THEN /\ onboard' = [onboard EXCEPT ![execIdx] = FALSE]
                  /\ loc' = [loc EXCEPT ![w].tx = execIdx]
                  /\ Goto(w, "w_exectask")
             ELSE UNCHANGED <<onboard, loc>> /\ Goto(w, "w_loop")
  /\ UNCHANGED <<block, status, inc, hint, txLock, result, mv, dep, affects, valIdx,
                 finIdx, comIdx, executed, clock, lowerTs, unconfTs, abort, abortReason, abortTx, slot,
                 cstate, outcomes, returned>>

W_ExecTask(w) ==
  /\ pc[w] = "w_exectask" /\ txLock[loc[w].tx] = "free"
  /\ LET i == loc[w].tx IN
     CASE status[i] \in {"Initial", "Conflict"} ->
            /\ status' = [status EXCEPT ![i] = "Executing"] /\ inc' = [inc EXCEPT ![i] = @ + 1]
            /\ loc' = [loc EXCEPT ![w].inc = inc[i] + 1]
            /\ Goto(w, "e_begin")
       [] status[i] = "Executing" -> UNCHANGED <<status, inc>> /\ ToIdle(w)
                                     /\ Goto(w, IF loc[w].ctx = "handoff" THEN TaskDone ELSE "w_loop")
       [] OTHER -> UNCHANGED <<status, inc, loc>> /\ Goto(w, "d_remove_np")
  /\ UNCHANGED <<block, hint, txLock, result, mv, onboard, dep, affects, execIdx, valIdx,
                 finIdx, comIdx, executed, clock, lowerTs, unconfTs, abort, abortReason, abortTx, slot,
                 cstate, outcomes, returned>>

D_RemoveNP(w) ==     \* remove(tx, false): a claim found the tx past execution
  /\ pc[w] = "d_remove_np"
  /\ LET r == DepRemove(loc[w].tx, FALSE) IN
     dep' = r.dep /\ onboard' = r.onboard /\ execIdx' = r.execIdx /\ affects' = r.affects
  /\ Goto(w, IF loc[w].ctx = "handoff" THEN TaskDone ELSE "w_loop") /\ ToIdle(w)
  /\ UNCHANGED <<block, status, inc, hint, txLock, result, mv, valIdx,
                 finIdx, comIdx, executed, clock, lowerTs, unconfTs, abort, abortReason, abortTx, slot,
                 cstate, outcomes, returned>>

(* ---- execute_task ---- *)
Prog(i) == Body(block.progs[i + 1])

StartExec(w, i) ==   \* locals of a fresh attempt, advanced to its first shared read
  LET c == IF TraceMode THEN [ip |-> 1, regs |-> ZeroRegs, wbuf |-> EmptyW, st |-> "read"]
           ELSE RunLocal(Prog(i), 1, ZeroRegs, EmptyW) IN
  [loc[w] EXCEPT !.ip = c.ip, !.regs = c.regs, !.wbuf = c.wbuf, !.st = c.st, !.c = comIdx,
                 !.rs = [l \in Locs |-> NoVer], !.rv = [l \in Locs |-> 0], !.blockers = {},
                 !.topub = IF c.st = "ok" THEN {l \in Locs : c.wbuf[l] # NoW} ELSE {}, !.pubd = {},
                 !.conflict = FALSE, !.newloc = FALSE, !.next = -1]

AfterReads(c) == IF c.st = "read" THEN "e_read" ELSE IF c.st = "ok" THEN "p_pub" ELSE "e_done"

E_Begin(w) ==
  /\ pc[w] = "e_begin" /\ txLock[loc[w].tx] = "free"
  /\ LET i == loc[w].tx IN
     IF status[i] # "Executing"
     THEN UNCHANGED txLock /\ ToIdle(w) /\ Goto(w, TaskDone)
     ELSE /\ txLock' = [txLock EXCEPT ![i] = w]
          /\ LET l2 == StartExec(w, i) IN
             /\ loc' = [loc EXCEPT ![w] = l2]
             /\ Goto(w, IF TraceMode THEN "e_run" ELSE IF l2.st = "ok" /\ l2.topub = {} THEN "e_done" ELSE AfterReads(l2))
  /\ UNCHANGED <<block, status, inc, hint, result, mv, onboard, dep, affects, execIdx, valIdx,
                 finIdx, comIdx, executed, clock, lowerTs, unconfTs, abort, abortReason, abortTx, slot,
                 cstate, outcomes, returned>>

(* one read through IncarnationDb: latest preceding version in mv, else the committed state *)
(* storage: newest of (reset marker, slot version); a marker newer than the slot masks it and the
   backing store; storage written by the resetting transaction itself wins (>=)                  *)
ReadOf(w, l) ==
  LET i == loc[w].tx  v == Resolve(l, i)
      rv == IF ResetOf(l) = "none" \/ ~GResetMasks THEN NoVer ELSE Resolve(ResetOf(l), i)
      slotWins == v.k = "mv" /\ (rv.k # "mv" \/ (IF GCreatedWins THEN v.tx >= rv.tx ELSE v.tx > rv.tx))
  IN IF slotWins THEN [ver |-> v, val |-> mv[l][v.tx].val, est |-> mv[l][v.tx].est]
     ELSE IF rv.k = "mv" THEN [ver |-> (IF v.k = "mv" THEN v ELSE StVer), val |-> Zero,
                               est |-> (v.k = "mv" /\ mv[l][v.tx].est)]
     ELSE [ver |-> StVer, val |-> cstate[l], est |-> FALSE]

R_Read(w, l) ==
  /\ pc[w] \in {"e_read", "e_run"}
  /\ TraceMode \/ (pc[w] = "e_read" /\ l = Prog(loc[w].tx)[loc[w].ip][2])
  /\ LET i == loc[w].tx  r == ReadOf(w, l)
         rl == ResetOf(l)
         \* both the slot and the reset marker enter the read set (incarnation_db.rs:316-356); in trace
         \* mode the marker lookup is its own record
         withReset == ~TraceMode /\ rl # "none"
         rver == IF withReset THEN Resolve(rl, i) ELSE NoVer
         rest == withReset /\ rver.k = "mv" /\ mv[rl][rver.tx].est
         base == [loc[w] EXCEPT !.rs = [x \in Locs |-> IF x = l THEN r.ver
                                                       ELSE IF withReset /\ x = rl THEN (IF rver.k = "mv" THEN rver ELSE StVer)
                                                       ELSE @[x]],
                               !.rv = [@ EXCEPT ![l] = r.val],
                               !.blockers = (IF r.est /\ GEstBlocks THEN @ \cup {r.ver.tx} ELSE @)
                                            \cup (IF rest /\ GEstBlocks THEN {rver.tx} ELSE {})]
     IN IF TraceMode
        THEN loc' = [loc EXCEPT ![w] = base] /\ UNCHANGED pc
        ELSE LET ins == Prog(i)[loc[w].ip]
                 c == RunLocal(Prog(i), loc[w].ip + 1, [loc[w].regs EXCEPT ![ins[3]] = r.val], loc[w].wbuf)
                 l2 == [base EXCEPT !.ip = c.ip, !.regs = c.regs, !.wbuf = c.wbuf, !.st = c.st,
                                    !.topub = IF c.st = "ok" THEN {x \in Locs : c.wbuf[x] # NoW} ELSE {}]
             IN /\ loc' = [loc EXCEPT ![w] = l2]
                /\ Goto(w, IF l2.st = "ok" /\ l2.topub = {} THEN "e_done" ELSE AfterReads(l2))
  /\ UNCHANGED <<block, status, inc, hint, txLock, result, mv, onboard, dep, affects, execIdx, valIdx,
                 finIdx, comIdx, executed, clock, lowerTs, unconfTs, abort, abortReason, abortTx, slot,
                 cstate, outcomes, returned>>

(* The beneficiary account is resolved through its reward history (Beneficiary.tla), not through mv.
   The scheduler specification only needs one consequence: a read blocked by an unresolved history
   entry of transaction j makes the attempt an estimate blocked on j (trace mode only).          *)
R_BenBlock(w, j) ==
  /\ TraceMode /\ pc[w] = "e_run"
  /\ loc' = [loc EXCEPT ![w].blockers = @ \cup {j}]
  /\ UNCHANGED <<block, status, inc, hint, txLock, result, mv, onboard, dep, affects, execIdx, valIdx,
                 finIdx, comIdx, executed, clock, lowerTs, unconfTs, abort, abortReason, abortTx, slot,
                 cstate, outcomes, returned, pc>>

(* publication of one written location (finish_incarnation); v is the value (from wbuf or record) *)
P_Pub(w, l, v) ==
  /\ pc[w] \in {"p_pub", "e_run"}
  /\ TraceMode \/ (pc[w] = "p_pub" /\ l \in loc[w].topub /\ v = loc[w].wbuf[l])
  /\ mv' = [mv EXCEPT ![l][loc[w].tx] = [has |-> TRUE, inc |-> loc[w].inc, val |-> v, est |-> loc[w].blockers # {}]]
  /\ loc' = [loc EXCEPT ![w].topub = @ \ {l}, ![w].pubd = @ \cup {l},
                        ![w].wbuf = IF TraceMode THEN [@ EXCEPT ![l] = 1] ELSE @,
                        ![w].st = IF TraceMode THEN "ok" ELSE @]
  /\ IF TraceMode THEN UNCHANGED pc ELSE Goto(w, IF loc[w].topub = {l} THEN "e_done" ELSE "p_pub")
  /\ UNCHANGED <<block, status, inc, hint, txLock, result, onboard, dep, affects, execIdx, valIdx,
                 finIdx, comIdx, executed, clock, lowerTs, unconfTs, abort, abortReason, abortTx, slot,
                 cstate, outcomes, returned>>

(* execute_incarnation returned: kind \in {"ok","invalid","fatal"}; the scheduler compares write sets *)
E_Done(w, kind) ==
  /\ pc[w] \in {"e_done", "e_run"}
  /\ TraceMode \/ (pc[w] = "e_done" /\ kind = loc[w].st)
  /\ LET i == loc[w].tx
         blocked == loc[w].blockers # {}
         old == IF result[i].has THEN result[i].ws ELSE {}
         new == loc[w].pubd
     IN IF kind = "ok"
        THEN /\ loc' = [loc EXCEPT ![w].kind = kind, ![w].conflict = blocked, ![w].ip = 1, ![w].regs = ZeroRegs,
                                   ![w].wbuf = EmptyW, ![w].st = "none",
                                   ![w].newloc = (~result[i].has \/ ~(new \subseteq old)),
                                   ![w].todo = IF GRemoveStale THEN old \ new ELSE {}]
             /\ Goto(w, IF GRemoveStale /\ old \ new # {} THEN "p_unpub" ELSE IF blocked THEN "d_add" ELSE "d_remove")
        ELSE /\ loc' = [loc EXCEPT ![w].kind = kind, ![w].conflict = TRUE, ![w].newloc = FALSE, ![w].ip = 1,
                                   ![w].regs = ZeroRegs, ![w].wbuf = EmptyW, ![w].st = "none",
                                   ![w].todo = IF GMarkEstimate THEN old ELSE {}]
             /\ Goto(w, IF GMarkEstimate /\ old # {} THEN "p_est_e" ELSE IF blocked THEN "d_add" ELSE "e_headcheck")
  /\ UNCHANGED <<block, status, inc, hint, txLock, result, mv, onboard, dep, affects, execIdx, valIdx,
                 finIdx, comIdx, executed, clock, lowerTs, unconfTs, abort, abortReason, abortTx, slot,
                 cstate, outcomes, returned>>

P_Unpub(w, l) ==     \* a location of the previous incarnation that this one did not write
  /\ pc[w] = "p_unpub" /\ l \in loc[w].todo
  /\ mv' = [mv EXCEPT ![l][loc[w].tx] = NoEntry]
  /\ loc' = [loc EXCEPT ![w].todo = @ \ {l}]
  /\ Goto(w, IF loc[w].todo = {l} THEN (IF loc[w].conflict THEN "d_add" ELSE "d_remove") ELSE "p_unpub")
  /\ UNCHANGED <<block, status, inc, hint, txLock, result, onboard, dep, affects, execIdx, valIdx,
                 finIdx, comIdx, executed, clock, lowerTs, unconfTs, abort, abortReason, abortTx, slot,
                 cstate, outcomes, returned>>

RwOrAdd(i) == IF i + 1 < N THEN "t_rw1" ELSE "d_add_v"
ConfPc(i) == IF GMarkEstimate /\ result[i].ws # {} THEN "p_est_v" ELSE RwOrAdd(i)

(* mark_mv_estimate: error branch of execute_task (p_est_e) and conflict branch of validate (p_est_v) *)
P_Est(w, l) ==
  /\ pc[w] \in {"p_est_e", "p_est_v"} /\ l \in loc[w].todo
  /\ mv' = [mv EXCEPT ![l][loc[w].tx] = IF @.has THEN [@ EXCEPT !.est = TRUE] ELSE @]
  /\ loc' = [loc EXCEPT ![w].todo = @ \ {l}]
  /\ Goto(w, IF loc[w].todo # {l} THEN pc[w]
             ELSE IF pc[w] = "p_est_v" THEN RwOrAdd(loc[w].tx)
             ELSE IF loc[w].blockers # {} THEN "d_add" ELSE "e_headcheck")
  /\ UNCHANGED <<block, status, inc, hint, txLock, result, onboard, dep, affects, execIdx, valIdx,
                 finIdx, comIdx, executed, clock, lowerTs, unconfTs, abort, abortReason, abortTx, slot,
                 cstate, outcomes, returned>>

StoreResult(w) ==
  LET i == loc[w].tx IN
  [result EXCEPT ![i] = IF loc[w].kind = "ok"
                        THEN [has |-> TRUE, kind |-> "ok", rs |-> loc[w].rs, rv |-> loc[w].rv, ws |-> loc[w].pubd,
                              wv |-> [l \in Locs |-> IF l \in loc[w].pubd THEN mv[l][i].val ELSE 0]]
                        ELSE [has |-> TRUE, kind |-> loc[w].kind, rs |-> [l \in Locs |-> NoVer],
                              rv |-> [l \in Locs |-> 0],
                              ws |-> IF result[i].has THEN result[i].ws ELSE {}, wv |-> [l \in Locs |-> 0]]]

Blocker(S) == LET U == {j \in S : j >= finIdx} IN IF U = {} THEN -1 ELSE MaxSet(U)

D_Add(w) ==          \* add(tx, latest unfinalized blocker) - from execute_task or validate
  /\ pc[w] \in {"d_add", "d_add_v"}
  /\ LET i == loc[w].tx
         b == IF pc[w] = "d_add" THEN Blocker(loc[w].blockers)
              ELSE IF loc[w].hintv >= finIdx THEN loc[w].hintv ELSE -1
         r == DepAdd(i, b)
     IN /\ dep' = r.dep /\ onboard' = r.onboard /\ affects' = r.affects /\ execIdx' = r.execIdx
        /\ result' = IF pc[w] = "d_add" THEN StoreResult(w) ELSE result
  /\ Goto(w, IF pc[w] = "d_add" THEN "x_publish" ELSE "v_end")
  /\ UNCHANGED <<block, status, inc, hint, txLock, mv, valIdx,
                 finIdx, comIdx, executed, clock, lowerTs, unconfTs, abort, abortReason, abortTx, slot,
                 cstate, outcomes, returned, loc>>

D_Remove(w) ==       \* remove(tx, true) after a clean execution
  /\ pc[w] = "d_remove"
  /\ LET r == DepRemove(loc[w].tx, TRUE) IN
     /\ dep' = r.dep /\ onboard' = r.onboard /\ execIdx' = r.execIdx /\ affects' = r.affects
     /\ loc' = [loc EXCEPT ![w].next = r.next]
  /\ result' = StoreResult(w)
  /\ Goto(w, "x_publish")
  /\ UNCHANGED <<block, status, inc, hint, txLock, mv, valIdx,
                 finIdx, comIdx, executed, clock, lowerTs, unconfTs, abort, abortReason, abortTx, slot,
                 cstate, outcomes, returned>>

(* Workers execute with the sender-nonce check off; ordered commit re-checks the nonce (C_Nonce) unless nonce
   checking is disabled for the block, in which case it skips the comparison altogether. For the same reason
   an error of an attempt at the commit head decides the block directly only when nonce checking is disabled:
   otherwise in-order execution may reject the transaction before reaching the failing read, and the suffix is
   revalidated in order (fix 32e7315, DESIGN.md section 7).                                                  *)
E_HeadCheck(w) ==    \* an error with no unresolved predecessor: fatal / fallback only at the commit head
  /\ pc[w] = "e_headcheck"
  /\ result' = StoreResult(w)
  /\ IF (IF GHeadAtStart THEN loc[w].c ELSE comIdx) = loc[w].tx \/ ~GHeadOnly
     THEN /\ loc' = [loc EXCEPT ![w].reason = IF loc[w].kind = "invalid" \/ (GNonceReplay /\ NonceChecked) THEN "fallback" ELSE "fatal",
                                ![w].atx = loc[w].tx, ![w].ret = "d_keytx"]
          /\ Goto(w, "a_abort")
     ELSE UNCHANGED loc /\ Goto(w, "d_keytx")
  /\ UNCHANGED <<block, status, inc, hint, txLock, mv, onboard, dep, affects, execIdx, valIdx,
                 finIdx, comIdx, executed, clock, lowerTs, unconfTs, abort, abortReason, abortTx, slot,
                 cstate, outcomes, returned>>

D_KeyTx(w) ==        \* key_tx: wait behind the own commit boundary, or re-offer at once
  /\ pc[w] = "d_keytx"
  /\ LET i == loc[w].tx
         nd == IF i > (IF GKeyLive THEN comIdx ELSE 0) THEN i ELSE dep[i]
     IN /\ dep' = [dep EXCEPT ![i] = nd]
        /\ onboard' = [onboard EXCEPT ![i] = TRUE]
        /\ execIdx' = IF nd = -1 THEN Min(execIdx, i) ELSE execIdx
  /\ Goto(w, "x_publish")
  /\ UNCHANGED <<block, status, inc, hint, txLock, result, mv, affects, valIdx,
                 finIdx, comIdx, executed, clock, lowerTs, unconfTs, abort, abortReason, abortTx, slot,
                 cstate, outcomes, returned, loc>>

(* which validation rewind follows the execution, or the direct validation *)
RewindTarget(w) ==
  IF loc[w].next # -1 THEN loc[w].tx
  ELSE IF loc[w].conflict THEN (IF GRewindConflict THEN loc[w].tx + 1 ELSE -1)
  ELSE IF loc[w].newloc /\ GRewindNew THEN loc[w].tx ELSE -1

X_Publish(w) ==      \* status under the lock, then ExecutionFrontier::publish
  /\ pc[w] = "x_publish"
  /\ LET i == loc[w].tx  rt == RewindTarget(w)
         direct == loc[w].next = -1 /\ ~loc[w].conflict /\ ~(loc[w].newloc /\ GRewindNew)
     IN /\ status' = [status EXCEPT ![i] = IF loc[w].conflict THEN "Conflict" ELSE "Executed"]
        /\ executed' = [executed EXCEPT ![i] = TRUE]
        /\ loc' = [loc EXCEPT ![w].rwidx = rt, ![w].after = "e_end"]
        /\ Goto(w, IF rt # -1 /\ rt < N THEN "t_rw1" ELSE "e_end")
  /\ UNCHANGED <<block, inc, hint, txLock, result, mv, onboard, dep, affects, execIdx, valIdx,
                 finIdx, comIdx, clock, lowerTs, unconfTs, abort, abortReason, abortTx, slot,
                 cstate, outcomes, returned>>

(* rewind_validation_to(idx): timestamp + lower bound, then the cursor *)
T_Rewind1(w) ==
  /\ pc[w] = "t_rw1"
  /\ LET idx == IF loc[w].after = "e_end" THEN loc[w].rwidx ELSE loc[w].tx + 1 IN
     IF idx >= N \/ idx < 0
     THEN UNCHANGED <<clock, lowerTs, loc>> /\ Goto(w, IF loc[w].after = "e_end" THEN "e_end" ELSE "d_add_v")
     ELSE /\ clock' = clock + 1
          /\ lowerTs' = [lowerTs EXCEPT ![idx] = Max(@, clock)]
          /\ loc' = [loc EXCEPT ![w].rwidx = idx]
          /\ Goto(w, "t_rw2")
  /\ UNCHANGED <<block, status, inc, hint, txLock, result, mv, onboard, dep, affects, execIdx, valIdx,
                 finIdx, comIdx, executed, unconfTs, abort, abortReason, abortTx, slot,
                 cstate, outcomes, returned>>

T_Rewind2(w) ==
  /\ pc[w] = "t_rw2"
  /\ valIdx' = Min(valIdx, loc[w].rwidx)
  /\ Goto(w, IF loc[w].after = "e_end" THEN "e_end" ELSE "d_add_v")
  /\ UNCHANGED <<block, status, inc, hint, txLock, result, mv, onboard, dep, affects, execIdx,
                 finIdx, comIdx, executed, clock, lowerTs, unconfTs, abort, abortReason, abortTx, slot,
                 cstate, outcomes, returned, loc>>

E_End(w) ==          \* the tx lock is released; hand-over, direct validation, or back to the loop
  /\ pc[w] = "e_end"
  /\ LET i == loc[w].tx
         direct == loc[w].next = -1 /\ ~loc[w].conflict /\ RewindTarget(w) = -1
     IN /\ txLock' = [txLock EXCEPT ![i] = "free"]
        /\ status' = IF direct THEN [status EXCEPT ![i] = "Validating"] ELSE status
        /\ IF loc[w].next # -1
           THEN loc' = [loc EXCEPT ![w] = [IdleLoc EXCEPT !.tx = loc[w].next, !.ctx = "handoff"]] /\ Goto(w, "w_exectask")
           ELSE IF direct
                THEN loc' = [loc EXCEPT ![w] = [IdleLoc EXCEPT !.tx = i, !.inc = loc[w].inc]] /\ Goto(w, "v_begin")
                ELSE ToIdle(w) /\ Goto(w, TaskDone)
  /\ UNCHANGED <<block, inc, hint, result, mv, onboard, dep, affects, execIdx, valIdx,
                 finIdx, comIdx, executed, clock, lowerTs, unconfTs, abort, abortReason, abortTx, slot,
                 cstate, outcomes, returned>>

(* ---- validate ---- *)
V_Begin(w) ==
  /\ pc[w] = "v_begin" /\ txLock[loc[w].tx] = "free"
  /\ LET i == loc[w].tx IN
     IF status[i] # "Validating" \/ ~result[i].has \/ result[i].kind # "ok"
     THEN UNCHANGED txLock /\ ToIdle(w) /\ Goto(w, TaskDone)
     ELSE /\ txLock' = [txLock EXCEPT ![i] = w]
          /\ loc' = [loc EXCEPT ![w].scan = {l \in Locs : result[i].rs[l].k # "none"}, ![w].conflict = FALSE,
                                ![w].hintv = -1, ![w].ts = 0, ![w].after = "v",
                                ![w].todo = IF GMarkEstimate THEN result[i].ws ELSE {}]
          /\ Goto(w, IF GTsBeforeScan THEN "v_ts" ELSE "v_scan")
  /\ UNCHANGED <<block, status, inc, hint, result, mv, onboard, dep, affects, execIdx, valIdx,
                 finIdx, comIdx, executed, clock, lowerTs, unconfTs, abort, abortReason, abortTx, slot,
                 cstate, outcomes, returned>>

AfterScan(w, scan, conflict) ==
  IF scan # {} THEN "v_scan"
  ELSE IF ~GTsBeforeScan /\ loc[w].ts = 0 THEN "v_ts"
  ELSE IF conflict THEN ConfPc(loc[w].tx) ELSE "t_unconf"

V_Ts(w) ==
  /\ pc[w] = "v_ts"
  /\ clock' = clock + 1
  /\ loc' = [loc EXCEPT ![w].ts = clock]
  /\ Goto(w, IF GTsBeforeScan THEN AfterScan(w, loc[w].scan, FALSE)
             ELSE IF loc[w].conflict THEN ConfPc(loc[w].tx) ELSE "t_unconf")
  /\ UNCHANGED <<block, status, inc, hint, txLock, result, mv, onboard, dep, affects, execIdx, valIdx,
                 finIdx, comIdx, executed, lowerTs, unconfTs, abort, abortReason, abortTx, slot,
                 cstate, outcomes, returned>>

(* one read-set entry: must still resolve to the same incarnation, and not to an estimate *)
ScanBad(i, l) ==
  LET had == result[i].rs[l]
      W == {j \in Tx : mv[l][j].has /\ j < i}
  IN IF W = {} THEN had.k # "st"
     ELSE LET j == MaxSet(W) IN
          \/ (mv[l][j].est /\ GValEst)
          \/ (~mv[l][j].est \/ ~GValEst) /\
               IF had.k = "mv" THEN (had.tx # j \/ (GValVersion /\ had.inc # mv[l][j].inc))
               ELSE GValStorage
ScanDep(i, l) == LET W == {j \in Tx : mv[l][j].has /\ j < i} IN IF W = {} THEN -1 ELSE MaxSet(W)

V_Scan(w, l) ==
  /\ pc[w] = "v_scan" /\ l \in loc[w].scan
  /\ LET i == loc[w].tx
         c == loc[w].conflict \/ ScanBad(i, l)
         rest == loc[w].scan \ {l}
     IN /\ loc' = [loc EXCEPT ![w].scan = rest, ![w].conflict = c, ![w].hintv = Max(@, ScanDep(i, l))]
        /\ Goto(w, AfterScan(w, rest, c))
  /\ UNCHANGED <<block, status, inc, hint, txLock, result, mv, onboard, dep, affects, execIdx, valIdx,
                 finIdx, comIdx, executed, clock, lowerTs, unconfTs, abort, abortReason, abortTx, slot,
                 cstate, outcomes, returned>>

T_Unconf(w) ==
  /\ pc[w] = "t_unconf"
  /\ LET i == loc[w].tx IN
     /\ unconfTs' = [unconfTs EXCEPT ![i] = Max(@, loc[w].ts)]
     /\ status' = [status EXCEPT ![i] = "Unconfirmed"]
     /\ hint' = [hint EXCEPT ![i] = loc[w].hintv]
  /\ Goto(w, "v_end")
  /\ UNCHANGED <<block, inc, txLock, result, mv, onboard, dep, affects, execIdx, valIdx,
                 finIdx, comIdx, executed, clock, lowerTs, abort, abortReason, abortTx, slot,
                 cstate, outcomes, returned, loc>>

V_End(w) ==
  /\ pc[w] = "v_end"
  /\ LET i == loc[w].tx IN
     /\ txLock' = [txLock EXCEPT ![i] = "free"]
     /\ status' = IF loc[w].conflict THEN [status EXCEPT ![i] = "Conflict"] ELSE status
     /\ hint' = IF loc[w].conflict THEN [hint EXCEPT ![i] = loc[w].hintv] ELSE hint
  /\ Goto(w, "v_notify")
  /\ loc' = [loc EXCEPT ![w] = [IdleLoc EXCEPT !.tx = loc[w].tx]]
  /\ UNCHANGED <<block, inc, result, mv, onboard, dep, affects, execIdx, valIdx,
                 finIdx, comIdx, executed, clock, lowerTs, unconfTs, abort, abortReason, abortTx, slot,
                 cstate, outcomes, returned>>

V_Notify(w) ==
  /\ pc[w] = "v_notify"
  /\ IF loc[w].tx = finIdx /\ GNotifyFin
     THEN Goto(w, "n_notify") /\ loc' = [loc EXCEPT ![w] = [IdleLoc EXCEPT !.npc = "validate"]]
     ELSE Goto(w, TaskDone) /\ ToIdle(w)
  /\ UNCHANGED <<block, status, inc, hint, txLock, result, mv, onboard, dep, affects, execIdx, valIdx,
                 finIdx, comIdx, executed, clock, lowerTs, unconfTs, abort, abortReason, abortTx, slot,
                 cstate, outcomes, returned>>

(* ======================================= finality ======================================= *)
F == loc["fin"].f
N_RegisterFin ==
  /\ pc["fin"] = "f_register"
  /\ slot' = [slot EXCEPT !["fin"].reg = TRUE]
  /\ Goto("fin", "f_loop")
  /\ UNCHANGED <<block, status, inc, hint, txLock, result, mv, onboard, dep, affects, execIdx, valIdx,
                 finIdx, comIdx, executed, clock, lowerTs, unconfTs, abort, abortReason, abortTx,
                 cstate, outcomes, returned, loc>>

F_Loop ==
  /\ pc["fin"] = "f_loop"
  /\ IF abort \/ F >= N THEN Goto("fin", "done") /\ UNCHANGED loc
     ELSE Goto("fin", "f_valload") /\ loc' = [loc EXCEPT !["fin"].batch0 = F, !["fin"].ctx = "loop"]
  /\ UNCHANGED <<block, status, inc, hint, txLock, result, mv, onboard, dep, affects, execIdx, valIdx,
                 finIdx, comIdx, executed, clock, lowerTs, unconfTs, abort, abortReason, abortTx, slot,
                 cstate, outcomes, returned>>

(* the candidate was refused: continue according to the context in which it was evaluated *)
FinRefused ==
  CASE loc["fin"].ctx = "loop" ->
         IF F > loc["fin"].batch0
         THEN (IF F - loc["fin"].batch0 > 1 /\ GNotifyBatch THEN "n_batch" ELSE "f_loop")
         ELSE (IF TraceMode THEN "f_pred1" ELSE "f_park")
    [] loc["fin"].ctx = "pred1" -> "f_pred2"
    [] OTHER -> "f_park"
FinAccepted == IF loc["fin"].ctx = "loop" THEN "f_publish" ELSE "f_loop"


F_ValLoad ==
  /\ pc["fin"] = "f_valload"
  /\ IF F >= N \/ (F >= valIdx /\ GFinCursor)
     THEN IF FinRefused = "n_batch"
          THEN Goto("fin", "n_notify") /\ loc' = [loc EXCEPT !["fin"].npc = "batch"]
          ELSE Goto("fin", FinRefused) /\ UNCHANGED loc
     ELSE Goto("fin", "f_lock") /\ UNCHANGED loc
  /\ UNCHANGED <<block, status, inc, hint, txLock, result, mv, onboard, dep, affects, execIdx, valIdx,
                 finIdx, comIdx, executed, clock, lowerTs, unconfTs, abort, abortReason, abortTx, slot,
                 cstate, outcomes, returned>>

F_Lock ==
  /\ pc["fin"] = "f_lock" /\ txLock[F] = "free"
  /\ IF status[F] = "Unconfirmed" \/ (~GFinStatus /\ status[F] \in {"Executed", "Validating", "Unconfirmed"} /\ result[F].has /\ result[F].kind = "ok")
     THEN txLock' = [txLock EXCEPT ![F] = "fin"] /\ Goto("fin", "f_decide") /\ UNCHANGED loc
     ELSE /\ UNCHANGED txLock
          /\ IF FinRefused = "n_batch"
             THEN Goto("fin", "n_notify") /\ loc' = [loc EXCEPT !["fin"].npc = "batch"]
             ELSE Goto("fin", FinRefused) /\ UNCHANGED loc
  /\ UNCHANGED <<block, status, inc, hint, result, mv, onboard, dep, affects, execIdx, valIdx,
                 finIdx, comIdx, executed, clock, lowerTs, unconfTs, abort, abortReason, abortTx, slot,
                 cstate, outcomes, returned>>

F_Decide ==
  /\ pc["fin"] = "f_decide"
  /\ LET eff == Max(IF GFinCarry THEN loc["fin"].lower ELSE 0, lowerTs[F])
         ok == unconfTs[F] > eff \/ ~GFinTs
     IN /\ txLock' = [txLock EXCEPT ![F] = "free"]
        /\ IF ok
           THEN /\ status' = IF loc["fin"].ctx = "loop" THEN [status EXCEPT ![F] = "Finality"] ELSE status
                /\ loc' = [loc EXCEPT !["fin"].lower = IF loc["fin"].ctx = "loop" THEN eff ELSE @]
                /\ Goto("fin", FinAccepted)
           ELSE /\ UNCHANGED status
                /\ IF FinRefused = "n_batch"
                   THEN Goto("fin", "n_notify") /\ loc' = [loc EXCEPT !["fin"].npc = "batch"]
                   ELSE Goto("fin", FinRefused) /\ UNCHANGED loc
  /\ UNCHANGED <<block, inc, hint, result, mv, onboard, dep, affects, execIdx, valIdx,
                 finIdx, comIdx, executed, clock, lowerTs, unconfTs, abort, abortReason, abortTx, slot,
                 cstate, outcomes, returned>>

F_Publish ==
  /\ pc["fin"] = "f_publish"
  /\ finIdx' = F + 1
  /\ IF F = loc["fin"].batch0 /\ GNotifyCom
     THEN Goto("fin", "n_notify") /\ loc' = [loc EXCEPT !["fin"].f = F + 1, !["fin"].npc = "first"]
     ELSE IF AfterPublish(F + 1) = "n_batch"
          THEN Goto("fin", "n_notify") /\ loc' = [loc EXCEPT !["fin"].f = F + 1, !["fin"].npc = "batch"]
          ELSE Goto("fin", AfterPublish(F + 1)) /\ loc' = [loc EXCEPT !["fin"].f = F + 1]
  /\ UNCHANGED <<block, status, inc, hint, txLock, result, mv, onboard, dep, affects, execIdx, valIdx,
                 comIdx, executed, clock, lowerTs, unconfTs, abort, abortReason, abortTx, slot,
                 cstate, outcomes, returned>>

F_Pred ==    \* wait_while's predicate: abort flag first, then the candidate
  /\ pc["fin"] \in {"f_pred1", "f_pred2"}
  /\ IF abort THEN Goto("fin", "f_loop") /\ UNCHANGED loc
     ELSE Goto("fin", "f_valload") /\ loc' = [loc EXCEPT !["fin"].ctx = IF pc["fin"] = "f_pred1" THEN "pred1" ELSE "pred2"]
  /\ UNCHANGED <<block, status, inc, hint, txLock, result, mv, onboard, dep, affects, execIdx, valIdx,
                 finIdx, comIdx, executed, clock, lowerTs, unconfTs, abort, abortReason, abortTx, slot,
                 cstate, outcomes, returned>>

N_ParkFin ==
  /\ pc["fin"] = "f_park" /\ slot["fin"].token
  /\ slot' = [slot EXCEPT !["fin"].token = FALSE]
  /\ Goto("fin", "f_loop")
  /\ loc' = [loc EXCEPT !["fin"].ctx = "loop"]
  /\ UNCHANGED <<block, status, inc, hint, txLock, result, mv, onboard, dep, affects, execIdx, valIdx,
                 finIdx, comIdx, executed, clock, lowerTs, unconfTs, abort, abortReason, abortTx,
                 cstate, outcomes, returned>>

(* ======================================= ordered commit ======================================= *)
C == loc["com"].c
N_RegisterCom ==
  /\ pc["com"] = "c_register"
  /\ slot' = [slot EXCEPT !["com"].reg = TRUE]
  /\ Goto("com", "c_loop")
  /\ UNCHANGED <<block, status, inc, hint, txLock, result, mv, onboard, dep, affects, execIdx, valIdx,
                 finIdx, comIdx, executed, clock, lowerTs, unconfTs, abort, abortReason, abortTx,
                 cstate, outcomes, returned, loc>>

C_Loop ==
  /\ pc["com"] = "c_loop"
  /\ IF abort \/ C >= N THEN Goto("com", "done") /\ UNCHANGED loc
     ELSE Goto("com", "c_finload") /\ loc' = [loc EXCEPT !["com"].batch0 = C]
  /\ UNCHANGED <<block, status, inc, hint, txLock, result, mv, onboard, dep, affects, execIdx, valIdx,
                 finIdx, comIdx, executed, clock, lowerTs, unconfTs, abort, abortReason, abortTx, slot,
                 cstate, outcomes, returned>>

C_FinLoad ==
  /\ pc["com"] = "c_finload"
  /\ Goto("com", IF C < finIdx THEN "c_take" ELSE IF C > loc["com"].batch0 THEN "c_loop"
                 ELSE IF TraceMode THEN "c_pred1" ELSE "c_park")
  /\ UNCHANGED <<block, status, inc, hint, txLock, result, mv, onboard, dep, affects, execIdx, valIdx,
                 finIdx, comIdx, executed, clock, lowerTs, unconfTs, abort, abortReason, abortTx, slot,
                 cstate, outcomes, returned, loc>>

C_Take ==    \* take the finalized result; a missing or failed one is a scheduler inconsistency
  /\ pc["com"] = "c_take"
  /\ IF result[C].has /\ result[C].kind = "ok"
     THEN Goto("com", IF TraceMode \/ BadNonce(block.progs[C + 1]) THEN "c_nonce" ELSE "c_apply") /\ UNCHANGED loc
     ELSE Goto("com", "a_abort") /\ loc' = [loc EXCEPT !["com"].reason = "parallel", !["com"].atx = C, !["com"].ret = "done"]
  /\ UNCHANGED <<block, status, inc, hint, txLock, result, mv, onboard, dep, affects, execIdx, valIdx,
                 finIdx, comIdx, executed, clock, lowerTs, unconfTs, abort, abortReason, abortTx, slot,
                 cstate, outcomes, returned>>

(* commit-time nonce re-check against the committed state (ordered_commit.rs:115-143). In the model a wrong
   nonce is the static marker of the program (the step is skipped for the others to keep the state space
   small); in trace mode the verdict is the record's.                                                   *)
C_Nonce(ok) ==
  /\ pc["com"] = "c_nonce"
  /\ IF ok THEN Goto("com", "c_apply") /\ UNCHANGED loc
     ELSE Goto("com", "a_abort") /\ loc' = [loc EXCEPT !["com"].reason = "fallback", !["com"].atx = -1, !["com"].ret = "done"]
  /\ UNCHANGED <<block, status, inc, hint, txLock, result, mv, onboard, dep, affects, execIdx, valIdx,
                 finIdx, comIdx, executed, clock, lowerTs, unconfTs, abort, abortReason, abortTx, slot,
                 cstate, outcomes, returned>>

C_Apply ==   \* OrderedCommitter::commit: state applied, outcome pushed (the commit event)
  /\ pc["com"] = "c_apply" \/ (pc["com"] = "c_nonce" /\ ~NonceChecked)
  /\ cstate' = [l \in Locs |-> IF l \in result[C].ws THEN result[C].wv[l]
                              ELSE IF ResetOf(l) # "none" /\ ResetOf(l) \in result[C].ws THEN Zero ELSE cstate[l]]
  /\ outcomes' = Append(outcomes, [tx |-> C, kind |-> "executed",
                                   wv |-> [l \in Locs |-> IF l \in result[C].ws THEN result[C].wv[l] ELSE NoW]])
  /\ Goto("com", "c_publish")
  /\ UNCHANGED <<block, status, inc, hint, txLock, result, mv, onboard, dep, affects, execIdx, valIdx,
                 finIdx, comIdx, executed, clock, lowerTs, unconfTs, abort, abortReason, abortTx, slot,
                 returned, loc>>

C_Publish ==
  /\ pc["com"] = "c_publish"
  /\ comIdx' = C + 1
  /\ Goto("com", "d_commit")
  /\ UNCHANGED <<block, status, inc, hint, txLock, result, mv, onboard, dep, affects, execIdx, valIdx,
                 finIdx, executed, clock, lowerTs, unconfTs, abort, abortReason, abortTx, slot,
                 cstate, outcomes, returned, loc>>

D_Commit ==  \* TxDependency::commit(c): release the successor's barrier
  /\ pc["com"] = "d_commit"
  /\ IF C + 1 < N /\ onboard[C + 1] /\ GCommitRelease
     THEN dep' = [dep EXCEPT ![C + 1] = -1] /\ execIdx' = Min(execIdx, C + 1)
     ELSE UNCHANGED <<dep, execIdx>>
  /\ loc' = [loc EXCEPT !["com"].c = C + 1]
  /\ Goto("com", "c_finload")
  /\ UNCHANGED <<block, status, inc, hint, txLock, result, mv, onboard, affects, valIdx,
                 finIdx, comIdx, executed, clock, lowerTs, unconfTs, abort, abortReason, abortTx, slot,
                 cstate, outcomes, returned>>

C_Pred ==
  /\ pc["com"] \in {"c_pred1", "c_pred2"}
  /\ Goto("com", IF abort \/ C < finIdx THEN "c_loop" ELSE IF pc["com"] = "c_pred1" THEN "c_pred2" ELSE "c_park")
  /\ UNCHANGED <<block, status, inc, hint, txLock, result, mv, onboard, dep, affects, execIdx, valIdx,
                 finIdx, comIdx, executed, clock, lowerTs, unconfTs, abort, abortReason, abortTx, slot,
                 cstate, outcomes, returned, loc>>

N_ParkCom ==
  /\ pc["com"] = "c_park" /\ slot["com"].token
  /\ slot' = [slot EXCEPT !["com"].token = FALSE]
  /\ Goto("com", "c_loop")
  /\ UNCHANGED <<block, status, inc, hint, txLock, result, mv, onboard, dep, affects, execIdx, valIdx,
                 finIdx, comIdx, executed, clock, lowerTs, unconfTs, abort, abortReason, abortTx,
                 cstate, outcomes, returned, loc>>

(* ======================================= next-state ======================================= *)
WStep(w) ==
  \/ W_Loop(w) \/ W_ValClaim(w) \/ W_ValLock(w) \/ D_Next(w) \/ W_ExecTask(w) \/ D_RemoveNP(w)
  \/ E_Begin(w) \/ (\E l \in Locs : R_Read(w, l))
  \/ (\E l \in Locs : P_Pub(w, l, loc[w].wbuf[l]))
  \/ (\E k \in {"ok", "invalid", "fatal"} : E_Done(w, k))
  \/ (\E l \in Locs : P_Unpub(w, l)) \/ (\E l \in Locs : P_Est(w, l))
  \/ D_Add(w) \/ D_Remove(w) \/ E_HeadCheck(w) \/ D_KeyTx(w) \/ X_Publish(w) \/ T_Rewind1(w) \/ T_Rewind2(w)
  \/ E_End(w) \/ V_Begin(w) \/ V_Ts(w) \/ (\E l \in Locs : V_Scan(w, l)) \/ T_Unconf(w)
  \/ V_End(w) \/ V_Notify(w) \/ A_Abort(w) \/ A_Cancel(w) \/ N_Notify(w)
FStep == N_RegisterFin \/ F_Loop \/ F_ValLoad \/ F_Lock \/ F_Decide \/ F_Publish \/ F_Pred \/ N_ParkFin \/ N_Notify("fin")
CStep == N_RegisterCom \/ C_Loop \/ C_FinLoad \/ C_Take \/ (IF TraceMode THEN C_Nonce(TRUE) \/ C_Nonce(FALSE) ELSE C_Nonce(~BadNonce(block.progs[C + 1]))) \/ C_Apply \/ C_Publish \/ D_Commit \/ C_Pred \/ N_ParkCom
         \/ A_Abort("com") \/ A_Cancel("com") \/ N_Notify("com")
MStep == M_Start \/ M_Join \/ S_Tx

Terminated == pc["main"] = "done"
Next == (\E w \in Workers : WStep(w)) \/ FStep \/ CStep \/ MStep \/ (Terminated /\ UNCHANGED vars)

Spec == Init /\ [][Next]_vars /\ (\A w \in Workers : WF_vars(WStep(w))) /\ WF_vars(FStep) /\ WF_vars(CStep) /\ WF_vars(MStep)

(* ======================================= properties ======================================= *)
(* C02: what is committed for tx k is exactly the in-order effect of tx k, in order, once *)
CommitMatchesRef ==
  \A k \in 1..Len(outcomes) :
    LET o == outcomes[k] IN
      /\ o.tx = k - 1
      /\ o.kind = RefOutcome(k - 1)
      /\ (o.kind = "executed" /\ ~TraceMode => \A l \in Locs : o.wv[l] = RefW(k - 1)[l])
CommittedIsPrefix == Len(outcomes) <= FatalAt /\ comIdx <= Len(outcomes)
                     /\ (pc["main"] # "s_tx" /\ pc["main"] # "done" => comIdx >= Len(outcomes) - 1)

(* the committed incarnation read exactly the in-order pre-state (core Block-STM safety).
   Finality is provisional in one respect: the sender nonce is only checked by ordered commit (C_Nonce),
   so a final transaction may still be rejected there, together with every final successor that read
   from it. In the model a final transaction is held to the invariant as soon as it is final unless it
   or a predecessor carries a wrong nonce; on recorded runs it is evaluated on the committed prefix.   *)
CommittedReadsFresh ==
  \A k \in 0..(N - 1) :
    (status[k] = "Finality" /\ (k < comIdx \/ (~TraceMode /\ \A j \in 0..k : ~BadNonce(block.progs[j + 1])))
       /\ result[k].has /\ result[k].kind = "ok") =>
       \A l \in Locs : (result[k].rs[l].k # "none" /\ ~IsResetLoc(l)) => result[k].rv[l] = RefState(k)[l]

(* C01 / C03 / C04: the final observable *)
FinalOk ==
  Terminated =>
    IF FatalAt = N
    THEN /\ returned = "ok" /\ Len(outcomes) = N /\ (TraceMode \/ cstate = RefState(N))
    ELSE /\ returned = "err" /\ loc["main"].k = FatalAt /\ Len(outcomes) = FatalAt
         /\ (TraceMode \/ cstate = RefState(FatalAt))

(* C15 (timestamp clause): a validation that predates a covering rewind never makes its tx final *)
FinalityFresh ==
  \A k \in 0..(N - 1) : status[k] = "Finality" => \A i \in 0..k : unconfTs[k] > lowerTs[i]

(* C05 *)
Terminates == <>Terminated
TypeOK == /\ valIdx \in 0..N /\ finIdx \in 0..N /\ comIdx \in 0..N /\ comIdx <= finIdx
(* ---------------------------------------------------------------------------------------------
   Coverage goals: states of the design that the implementation must handle correctly although
   ordinary schedules rarely reach them. `NotReach_G` is checked as an invariant; TLC's shortest path
   to the goal is a schedule, replayed on the real scheduler (guide policy) and the recorded run is
   validated like every other run. Nothing is claimed about these states beyond reachability.       *)
(* every predecessor of a failing attempt is committed while the attempt is still running *)
Reach_CommitDuringFailedAttempt ==
  \E w \in Workers : pc[w] = "e_done" /\ loc[w].st \in {"fatal", "invalid"} /\ loc[w].blockers = {}
                      /\ loc[w].c # loc[w].tx /\ comIdx = loc[w].tx
NotReach_CommitDuringFailedAttempt == ~Reach_CommitDuringFailedAttempt
========================================================================
