---------------------------- MODULE WaitSlot ----------------------------
(* Coordinator wait slot of grevm (src/scheduler/wait.rs) with its callers' protocol.

   One waiter (the finality or the commit coordinator) and a set of notifiers (validate(), the
   finality loop, cancel()).  Action names are the hook labels of the implementation:

     N_Register   WaitSlot::register_current_thread          (wait.rs:29)
     W_LoopRead   the caller's own loop condition            (scheduler.rs:240, 326)
     W_Check      predicate evaluation inside wait_while     (wait.rs:45, 51)
     N_Yield      thread::yield_now between the two checks   (wait.rs:50)
     N_Park       park_timeout returning                     (wait.rs:52) - token semantics of
                  std::thread::park; THE STALL TIMER NEVER FIRES in this model, so a lost
                  wake-up is a deadlock and a liveness violation, not an 8 s pause
     P_Publish    a producer makes the awaited condition true
     N_Notify     WaitSlot::notify                           (wait.rs:35)

   Guard switches (all TRUE = the implementation as read):
     GPublishFirst  producers publish state before notifying      (scheduler.rs:252-271, 794; control.rs:140)
     GSecondCheck   predicate re-checked after the yield          (wait.rs:51)
     GRegisterFirst the waiter registers before its first check   (scheduler.rs:235, 323)
     GToken         unpark before park leaves a token             (std parker semantics)        *)
EXTENDS Naturals, FiniteSets, Sequences, TLC

CONSTANTS Notifiers,      \* notifiers that publish and notify
          Spurious,       \* notifiers that only notify (wake-ups for unrelated reasons)
          GPublishFirst, GSecondCheck, GRegisterFirst, GToken

VARIABLES registered,     \* the slot's OnceLock<Thread> is set
          token,          \* park token of the registered thread
          cond,           \* the awaited condition (the predicate is  blocked == ~cond)
          wpc,            \* waiter program counter
          npc             \* notifier program counters: index into Prog(n), 0 = done

vars == <<registered, token, cond, wpc, npc>>

AllNotifiers == Notifiers \cup Spurious

Prog(n) == IF n \in Spurious THEN <<"notify">>
           ELSE IF GPublishFirst THEN <<"publish", "notify">> ELSE <<"notify", "publish">>

Init == /\ registered = FALSE /\ token = FALSE /\ cond = FALSE
        /\ wpc = IF GRegisterFirst THEN "register" ELSE "loop"
        /\ npc = [n \in AllNotifiers |-> 1]

(* ------------------------------- waiter ------------------------------- *)
N_Register ==
  /\ wpc \in {"register", "lateregister"}
  /\ registered' = TRUE
  /\ wpc' = IF wpc = "register" THEN "loop" ELSE "yield"
  /\ UNCHANGED <<token, cond, npc>>

W_LoopRead ==
  /\ wpc = "loop"
  /\ wpc' = IF cond THEN "done" ELSE "check1"
  /\ UNCHANGED <<registered, token, cond, npc>>

W_Check ==
  /\ wpc \in {"check1", "check2"}
  /\ wpc' = IF cond THEN "loop"
            ELSE IF wpc = "check1"
                 THEN (IF ~GRegisterFirst /\ ~registered THEN "lateregister" ELSE "yield")
                 ELSE "park"
  /\ UNCHANGED <<registered, token, cond, npc>>

N_Yield ==
  /\ wpc = "yield"
  /\ wpc' = IF GSecondCheck THEN "check2" ELSE "park"
  /\ UNCHANGED <<registered, token, cond, npc>>

(* park(): returns at once when a token is present, otherwise the thread falls asleep (N_Sleep, a
   step the implementation cannot log) and returns when a token arrives.  The event N_Park is the
   return.  With GToken the two-step form is equivalent to the one-step form, which is why the
   trace specification never needs N_Sleep.                                                      *)
N_Sleep ==
  /\ wpc = "park" /\ ~token
  /\ wpc' = "asleep"
  /\ UNCHANGED <<registered, token, cond, npc>>

N_Park ==
  /\ wpc \in {"park", "asleep"} /\ token
  /\ token' = FALSE
  /\ wpc' = "loop"
  /\ UNCHANGED <<registered, cond, npc>>

(* ------------------------------ notifiers ------------------------------ *)
Step(n) == IF npc[n] = Len(Prog(n)) THEN 0 ELSE npc[n] + 1

P_Publish(n) ==
  /\ npc[n] # 0 /\ Prog(n)[npc[n]] = "publish"
  /\ cond' = TRUE
  /\ npc' = [npc EXCEPT ![n] = Step(n)]
  /\ UNCHANGED <<registered, token, wpc>>

N_Notify(n) ==
  /\ npc[n] # 0 /\ Prog(n)[npc[n]] = "notify"
  /\ token' = IF registered /\ (GToken \/ wpc = "asleep") THEN TRUE ELSE token
  /\ npc' = [npc EXCEPT ![n] = Step(n)]
  /\ UNCHANGED <<registered, cond, wpc>>

Terminated == wpc = "done" /\ \A n \in AllNotifiers : npc[n] = 0

Next == \/ N_Register \/ W_LoopRead \/ W_Check \/ N_Yield \/ N_Sleep \/ N_Park
        \/ \E n \in AllNotifiers : P_Publish(n) \/ N_Notify(n)
        \/ (Terminated /\ UNCHANGED vars)

Spec == Init /\ [][Next]_vars
        /\ WF_vars(N_Register) /\ WF_vars(W_LoopRead) /\ WF_vars(W_Check) /\ WF_vars(N_Yield)
        /\ WF_vars(N_Park) /\ WF_vars(N_Sleep) /\ \A n \in AllNotifiers : WF_vars(P_Publish(n) \/ N_Notify(n))

(* ------------------------------ properties ------------------------------ *)
TypeOK == /\ registered \in BOOLEAN /\ token \in BOOLEAN /\ cond \in BOOLEAN
          /\ wpc \in {"register", "lateregister", "loop", "check1", "yield", "check2", "park", "asleep", "done"}

(* C17: the waiter is never asleep without a token once the condition holds and every producer has
   finished - from such a state only the stall timer could wake it.                              *)
NoLostWakeup ==
  ~(wpc \in {"park", "asleep"} /\ ~token /\ cond /\ \A n \in AllNotifiers : npc[n] = 0)

(* A token is only ever consumed by the registered waiter; notifications before registration are
   dropped and must be covered by the predicate.                                                 *)
TokenImpliesRegistered == token => registered

(* C17 as liveness: once the condition holds the waiter returns.                                 *)
EventuallyReturns == (Notifiers # {}) => <>(wpc = "done")
CondLeadsToDone == cond ~> (wpc = "done")
=============================================================================
