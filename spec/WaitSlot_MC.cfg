SPECIFICATION Spec
CONSTANTS
  Notifiers = {"n1", "n2"}
  Spurious = {"s1"}
  GPublishFirst = TRUE
  GSecondCheck = TRUE
  GRegisterFirst = TRUE
  GToken = TRUE
INVARIANTS TypeOK NoLostWakeup TokenImpliesRegistered
PROPERTIES EventuallyReturns CondLeadsToDone
CHECK_DEADLOCK TRUE
