----------------------------- MODULE GrevmTrace -----------------------------
(* Trace validation of the real scheduler (src/scheduler.rs under the step controller, SCHED hook
   points) against Grevm.tla in TraceMode: every record is an enabled step of the specification
   with the logged values; the specification's invariants are evaluated after every record with
   the in-order stock-revm run of the same block (header) as the reference.
   Read-only records that the implementation emits inside another action's atomic block (F_Final)
   are checked as assertions.                                                                     *)
EXTENDS Grevm, Json, IOUtils, TLCExt

VARIABLE l
Rec == ndJsonDeserialize(IOEnv.TRACE)
tvars == <<vars, l>>

Has(e) == l <= Len(Rec) /\ Rec[l].l = e /\ l' = l + 1
R == Rec[l]
T == Rec[l].t
SetOf(seq) == {seq[k] : k \in 1..Len(seq)}

BlockOf(r) == [n |-> r.n, locs |-> SetOf(r.locs), pre |-> r.ref[1], ref |-> r.ref, refkind |-> r.refkind,
               fatal_at |-> r.fatal_at, progs |-> <<>>, resetOf |-> r.resetOf, nonceCheck |-> r.nonce_check]

TraceInit == l = 1 /\ Rec[1].l = "RESET" /\ InitFor(BlockOf(Rec[1]))

Reset ==
  /\ Has("RESET")
  /\ LET b == BlockOf(R) IN
     /\ block' = b
     /\ status' = [i \in Tx |-> "Initial"] /\ inc' = [i \in Tx |-> 0] /\ hint' = [i \in Tx |-> -1]
     /\ txLock' = [i \in Tx |-> "free"]
     /\ result' = [i \in Tx |-> [has |-> FALSE, kind |-> "none", rs |-> [x \in b.locs |-> NoVer],
                                rv |-> [x \in b.locs |-> 0], ws |-> {}, wv |-> [x \in b.locs |-> 0]]]
     /\ mv' = [x \in b.locs |-> [i \in Tx |-> NoEntry]]
     /\ onboard' = [i \in Tx |-> TRUE] /\ dep' = [i \in Tx |-> -1] /\ affects' = [i \in Tx |-> {}] /\ execIdx' = 0
     /\ valIdx' = 0 /\ finIdx' = 0 /\ comIdx' = 0 /\ executed' = [i \in Tx |-> FALSE]
     /\ clock' = 1 /\ lowerTs' = [i \in Tx |-> 0] /\ unconfTs' = [i \in Tx |-> 0]
     /\ abort' = FALSE /\ abortReason' = "none" /\ abortTx' = -1
     /\ slot' = [s \in {"fin", "com"} |-> [reg |-> FALSE, token |-> FALSE]]
     /\ cstate' = b.pre /\ outcomes' = <<>> /\ returned' = "none"
     /\ pc' = [t \in Threads |-> IF t = "main" THEN "m_start" ELSE "off"]
     /\ loc' = [t \in Threads |->
                 [tx |-> -1, inc |-> 0, ip |-> 1, regs |-> [r \in 1..2 |-> 0], wbuf |-> [x \in b.locs |-> -1], st |-> "none",
                  rs |-> [x \in b.locs |-> NoVer], rv |-> [x \in b.locs |-> 0], blockers |-> {}, topub |-> {},
                  pubd |-> {}, todo |-> {}, conflict |-> FALSE, newloc |-> FALSE, next |-> -1, ts |-> 0,
                  rwidx |-> -1, after |-> "none", kind |-> "none", scan |-> {}, hintv |-> -1,
                  f |-> 0, lower |-> 0, batch0 |-> 0, ctx |-> "loop", eff |-> 0, c |-> 0, prog0 |-> 0,
                  k |-> 0, reason |-> "none", atx |-> -1, ret |-> "none", npc |-> "none"]]

SKind(k) == CASE RefKind(k) = "ok" -> "executed" [] RefKind(k) = "invalid" -> "skipped" [] OTHER -> "error"
(* version strings of the events: "st" | "<tx>.<inc>" *)
VerStr(v) == IF v.k = "mv" THEN ToString(v.tx) \o "." \o ToString(v.inc) ELSE "st"
KindOf(r) == IF r.ok THEN "ok" ELSE IF r.error = "invalid" THEN "invalid" ELSE "fatal"

TraceNext ==
  \/ Reset
  \/ Has("M_Path") /\ (IF R.sequential THEN M_StartSeq ELSE M_Start)
  \/ Has("M_Post") /\ M_Join /\ R.aborted = abort /\ R.committed = comIdx
  \* read-only records: decisions of the code that the specification takes inside a neighbouring action
  \/ Has("E_Res") /\ UNCHANGED vars /\ R.tx = loc[T].tx /\ R.newloc = loc[T].newloc          \* write-set expansion (decides the rewind)
  \/ Has("H_Rec") /\ UNCHANGED vars /\ R.tx = loc[T].tx /\ R.estimate = loc[T].conflict /\ R.ok  \* history entry: estimate iff the attempt is discarded
  \/ Has("M_Install") /\ UNCHANGED vars /\ pc["main"] = "m_join" /\ R.committed = comIdx     \* ordered output installed: exactly the committed prefix
  \/ Has("S_Begin") /\ UNCHANGED vars /\ pc["main"] = "s_tx" /\ R.start = loc["main"].k /\ R.outcomes = Len(outcomes)
  \/ Has("S_Tx") /\ S_Tx /\ R.tx = loc["main"].k /\ loc["main"].k < N /\ R.kind = SKind(loc["main"].k)
  \* what execute() returned to its caller (recorded by the harness at the public call's return)
  \/ Has("M_Ret") /\ (IF pc["main"] = "s_tx" THEN S_Tx /\ loc["main"].k >= N ELSE UNCHANGED vars /\ pc["main"] = "done")
       /\ R.ok = (returned' = "ok") /\ R.outcomes = Len(outcomes') /\ (R.ok \/ R.err_tx = loc'["main"].k)
  \/ Has("N_Register") /\ (IF T = "fin" THEN N_RegisterFin ELSE N_RegisterCom)
  \/ Has("N_Park") /\ (IF T = "fin" THEN N_ParkFin ELSE N_ParkCom)
  \/ Has("N_Notify") /\ N_Notify(T) /\ R.slot = NSlot(T) /\ R.registered = slot[NSlot(T)].reg
  \/ Has("A_Abort") /\ A_Abort(T) /\ R.reason = loc[T].reason /\ R.first = (abortReason = "none")
  \/ Has("A_Cancel") /\ A_Cancel(T)
  \* ---- finality
  \/ Has("F_Loop") /\ F_Loop /\ R.abort = abort /\ R.fin = F
  \/ Has("F_ValLoad") /\ F_ValLoad /\ R.val = valIdx /\ R.fin = F
  \/ Has("F_Lock") /\ F_Lock /\ R.tx = F /\ R.status = status[F]
  \/ Has("F_Decide") /\ F_Decide /\ R.lower = lowerTs[F] /\ R.unconf = unconfTs[F] /\ R.carried = loc["fin"].lower
  \/ Has("F_Final") /\ UNCHANGED vars /\ R.tx = F /\ status[F] = "Finality" /\ R.lower = loc["fin"].lower
  \/ Has("F_Publish") /\ F_Publish /\ R.fin = F + 1
  \/ Has("F_Pred") /\ F_Pred /\ R.abort = abort
  \* ---- commit
  \/ Has("C_Loop") /\ C_Loop /\ R.abort = abort /\ R.com = C
  \/ Has("C_FinLoad") /\ C_FinLoad /\ R.fin = finIdx /\ R.com = C
  \/ Has("C_Take") /\ C_Take /\ R.tx = C
  \/ Has("C_Nonce") /\ C_Nonce(R.tx_nonce = R.state_nonce) /\ R.tx = C
  \/ Has("C_Apply") /\ C_Apply /\ R.tx = C
  \/ Has("C_Publish") /\ C_Publish /\ R.com = C + 1
  \/ Has("D_Commit") /\ D_Commit /\ R.tx = C
  \/ Has("C_Pred") /\ C_Pred /\ R.abort = abort /\ R.fin = finIdx
  \* ---- workers
  \/ Has("W_Loop") /\ W_Loop(T) /\ R.abort = abort /\ R.fin = finIdx
  \/ Has("W_ValClaim") /\ W_ValClaim(T) /\ R.idx = (IF CanClaim THEN valIdx ELSE -1)
  \/ Has("W_ValLock") /\ W_ValLock(T) /\ R.tx = loc[T].tx /\ R.status = status[loc[T].tx]
  \/ Has("D_Next") /\ D_Next(T) /\ R.tx = (IF execIdx < N /\ onboard[execIdx] /\ dep[execIdx] = -1 THEN execIdx ELSE -1)
  \/ Has("W_ExecTask") /\ W_ExecTask(T) /\ R.tx = loc[T].tx /\ R.status = status[loc[T].tx]
  \/ Has("D_Remove") /\ (IF R.pop THEN D_Remove(T) /\ R.next = loc'[T].next ELSE D_RemoveNP(T)) /\ R.tx = loc[T].tx
  \/ Has("E_Begin") /\ E_Begin(T) /\ R.tx = loc[T].tx /\ R.status = status[loc[T].tx] /\ R.inc = loc[T].inc
  \/ Has("R_Read") /\ R_Read(T, R.loc) /\ R.tx = loc[T].tx
       /\ R.ver = VerStr(ReadOf(T, R.loc).ver) /\ R.val = ReadOf(T, R.loc).val /\ R.est = ReadOf(T, R.loc).est
  \/ Has("R_BenBlock") /\ R_BenBlock(T, R.blocker)
  \* the entry an attempt leaves in the beneficiary history (recorded only when the HIST hooks are on): exact iff the
  \* attempt is kept as a result, i.e. it read no estimate of any kind - the same rule as the estimate flag of P_Pub
  \/ Has("HE_Record") /\ UNCHANGED vars /\ T \in Workers /\ pc[T] \notin {"e_run", "e_done"}
       /\ R.exact = (~loc[T].conflict /\ loc[T].kind = "ok")
  \/ Has("P_Pub") /\ P_Pub(T, R.loc, R.val) /\ R.tx = loc[T].tx /\ R.inc = loc[T].inc /\ R.est = (loc[T].blockers # {})
  \/ Has("E_Done") /\ E_Done(T, KindOf(R)) /\ R.tx = loc[T].tx /\ R.blocked = (loc[T].blockers # {})
       /\ SetOf(R.writes) = loc[T].pubd /\ SetOf(R.blockers) = loc[T].blockers
  \/ Has("P_Unpub") /\ P_Unpub(T, R.loc)
  \/ Has("P_Est") /\ P_Est(T, R.loc)
  \/ Has("D_Add") /\ D_Add(T) /\ R.tx = loc[T].tx
       /\ R.dep = (IF pc[T] = "d_add" THEN Blocker(loc[T].blockers) ELSE IF loc[T].hintv >= finIdx THEN loc[T].hintv ELSE -1)
  \/ Has("E_HeadCheck") /\ E_HeadCheck(T) /\ R.com = comIdx /\ R.invalid = (loc[T].kind = "invalid")
       /\ R.head_at_start = (loc[T].c = loc[T].tx)
  \/ Has("D_KeyTx") /\ D_KeyTx(T) /\ R.com = comIdx
  \/ Has("X_Publish") /\ X_Publish(T) /\ R.tx = loc[T].tx /\ R.conflict = loc[T].conflict
  \/ Has("T_Rewind1") /\ T_Rewind1(T) /\ R.ts = clock /\ R.idx = loc'[T].rwidx
  \/ Has("T_Rewind2") /\ T_Rewind2(T) /\ R.prev = valIdx /\ R.idx = loc[T].rwidx
  \/ Has("E_End") /\ E_End(T) /\ R.tx = loc[T].tx
       /\ R.then = (IF loc[T].next # -1 THEN "handoff" ELSE IF pc'[T] = "v_begin" THEN "validate" ELSE "loop")
  \/ Has("V_Begin") /\ V_Begin(T) /\ R.tx = loc[T].tx /\ R.status = status[loc[T].tx]
  \/ Has("V_Ts") /\ V_Ts(T) /\ R.ts = clock
  \/ Has("V_Scan") /\ V_Scan(T, R.loc) /\ R.bad = (~loc[T].conflict /\ ScanBad(loc[T].tx, R.loc))
  \/ Has("T_Unconf") /\ T_Unconf(T) /\ R.ts = loc[T].ts
  \/ Has("V_End") /\ V_End(T) /\ R.conflict = loc[T].conflict
  \/ Has("V_Notify") /\ V_Notify(T) /\ R.fin = finIdx

TraceSpec == TraceInit /\ [][TraceNext]_tvars

(* what the run reported must be what the specification derived *)
ResultMatches ==
  (l <= Len(Rec) /\ Rec[l].l = "RESET" /\ l > 1) => Terminated

TraceAccepted ==
  LET d == TLCGet("stats").diameter IN
  IF d - 1 = Len(Rec) THEN TRUE
  ELSE Print(<<"TRACE REJECTED at record", d, IF d <= Len(Rec) THEN Rec[d] ELSE "eof">>, FALSE)
=============================================================================
