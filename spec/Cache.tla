------------------------------- MODULE Cache -------------------------------
(* The committed cache of ParallelState for one account A with a few storage slots
   (src/parallel_state.rs): speculative workers fill it from the database while the ordered-commit
   thread applies finalized transaction states to it.  Action names are the CACHE hook labels.

   reader  db_storage(A, s):   CS_Lookup  CS_Known  CS_Fetch  CS_Insert            :560-589
   commit  apply_account_state: CA_StorageRemove  CA_Account  CA_Slots             :296-359
           for the account kinds destroy / create(slots) / empty-touch / change(slots)

   The property (C10, concurrent clause): reads performed concurrently by workers never change
   what the state later serves - after all commits the value served for every slot is the value a
   sequential revm State serves after the same history.

   GStatusFirst  commit changes the account status before it drops the cached storage
   GRecheck      the reader re-checks "storage known" under the storage entry lock before inserting
   Both TRUE = the repaired protocol ("fix:" commit for finding F1); both FALSE = the protocol of
   the pinned tree, for which TLC finds the stale fill.                                          *)
EXTENDS Integers, Sequences, FiniteSets, TLC

CONSTANTS Readers,        \* e.g. {"r1", "r2"}
          Slots,          \* e.g. {0, 1}
          Histories,      \* set of commit histories: sequences of [k |-> kind, slots |-> slot -> value or -1]
          GStatusFirst, GRecheck

VARIABLES hist, db, known, cslot, cpc, ck, rpc, rloc
vars == <<hist, db, known, cslot, cpc, ck, rpc, rloc>>

NoV == -1
DbVal == 42

Init == /\ hist \in Histories
        /\ db = [s \in Slots |-> DbVal]          \* backing database: never changes during the block
        /\ known = FALSE                         \* account cached with status Loaded: storage not known
        /\ cslot = [s \in Slots |-> NoV]         \* cached slot values (NoV = not cached)
        /\ cpc = "next" /\ ck = 1
        /\ rpc = [r \in Readers |-> "lookup"]
        /\ rloc = [r \in Readers |-> [s |-> CHOOSE s \in Slots : TRUE, v |-> NoV, known |-> FALSE]]

Op == hist[ck]
Resets(op) == op.k \in {"destroy", "create", "empty"}

(* ---------------- commit: apply_account_state for the k-th committed state ---------------- *)
CA_Begin ==   \* local: pick the next finalized state
  /\ cpc = "next" /\ ck <= Len(hist)
  /\ cpc' = IF Resets(Op) THEN (IF GStatusFirst THEN "account" ELSE "remove") ELSE "account"
  /\ UNCHANGED <<hist, db, known, cslot, ck, rpc, rloc>>

CA_StorageRemove ==
  /\ cpc = "remove"
  /\ cslot' = [s \in Slots |-> NoV]
  /\ cpc' = IF GStatusFirst THEN "slots" ELSE "account"
  /\ UNCHANGED <<hist, db, known, ck, rpc, rloc>>

CA_Account ==   \* status / info change: destroy, create and empty-touch make the storage known
  /\ cpc = "account"
  /\ known' = IF Resets(Op) THEN TRUE ELSE known
  /\ cpc' = IF Resets(Op) /\ GStatusFirst THEN "remove" ELSE "slots"
  /\ UNCHANGED <<hist, db, cslot, ck, rpc, rloc>>

CA_Slots ==     \* update_storage_slot with the changed slots (create / change)
  /\ cpc = "slots"
  /\ cslot' = [s \in Slots |-> IF Op.slots[s] # NoV THEN Op.slots[s] ELSE cslot[s]]
  /\ cpc' = "next" /\ ck' = ck + 1
  /\ UNCHANGED <<hist, db, known, rpc, rloc>>

(* ---------------- reader: db_storage(A, s) ---------------- *)
CS_Lookup(r, s) ==
  /\ rpc[r] = "lookup"
  /\ IF cslot[s] # NoV
     THEN rpc' = [rpc EXCEPT ![r] = "done"] /\ rloc' = [rloc EXCEPT ![r] = [s |-> s, v |-> cslot[s], known |-> FALSE]]
     ELSE rpc' = [rpc EXCEPT ![r] = "known"] /\ rloc' = [rloc EXCEPT ![r] = [s |-> s, v |-> NoV, known |-> FALSE]]
  /\ UNCHANGED <<hist, db, known, cslot, cpc, ck>>

CS_Known(r) ==
  /\ rpc[r] = "known"
  /\ rloc' = [rloc EXCEPT ![r].known = known, ![r].v = IF known THEN 0 ELSE NoV]
  /\ rpc' = [rpc EXCEPT ![r] = IF known THEN "insert" ELSE "fetch"]
  /\ UNCHANGED <<hist, db, known, cslot, cpc, ck>>

CS_Fetch(r) ==
  /\ rpc[r] = "fetch"
  /\ rloc' = [rloc EXCEPT ![r].v = db[rloc[r].s]]
  /\ rpc' = [rpc EXCEPT ![r] = "insert"]
  /\ UNCHANGED <<hist, db, known, cslot, cpc, ck>>

CS_Insert(r) ==   \* insert-if-absent; with GRecheck: a database value is not inserted once the storage is known
  /\ rpc[r] = "insert"
  /\ LET s == rloc[r].s
         skip == GRecheck /\ known /\ ~rloc[r].known
     IN cslot' = IF cslot[s] = NoV /\ ~skip THEN [cslot EXCEPT ![s] = rloc[r].v] ELSE cslot
  /\ rpc' = [rpc EXCEPT ![r] = "done"]
  /\ UNCHANGED <<hist, db, known, cpc, ck, rloc>>

AllDone == ck > Len(hist) /\ cpc = "next" /\ \A r \in Readers : rpc[r] = "done"
Next == \/ CA_Begin \/ CA_StorageRemove \/ CA_Account \/ CA_Slots
        \/ \E r \in Readers : (\E s \in Slots : CS_Lookup(r, s)) \/ CS_Known(r) \/ CS_Fetch(r) \/ CS_Insert(r)
        \/ (AllDone /\ UNCHANGED vars)
Spec == Init /\ [][Next]_vars /\ WF_vars(Next)

(* ---------------- what a sequential revm State serves after the history ---------------- *)
RECURSIVE SeqSlots(_, _, _)
SeqSlots(h, i, acc) ==   \* acc: [known, slots]
  IF i > Len(h) THEN acc
  ELSE LET op == h[i]
           base == IF op.k \in {"destroy", "create", "empty"} THEN [s \in Slots |-> NoV] ELSE acc.slots
           kn == acc.known \/ op.k \in {"destroy", "create", "empty"}
       IN SeqSlots(h, i + 1, [known |-> kn, slots |-> [s \in Slots |-> IF op.slots[s] # NoV THEN op.slots[s] ELSE base[s]]])
SeqServes(h, s) == LET a == SeqSlots(h, 1, [known |-> FALSE, slots |-> [x \in Slots |-> NoV]]) IN
                   IF a.slots[s] # NoV THEN a.slots[s] ELSE IF a.known THEN 0 ELSE DbVal
Serves(s) == IF cslot[s] # NoV THEN cslot[s] ELSE IF known THEN 0 ELSE DbVal

ReadsDoNotChangeState == AllDone => \A s \in Slots : Serves(s) = SeqServes(hist, s)
(* a stale database value never sits in the cache of an account whose storage is known *)
NoStaleFill == (cpc = "next" /\ \A r \in Readers : rpc[r] \in {"lookup", "done"}) =>
                  \A s \in Slots : Serves(s) = SeqServes(SubSeq(hist, 1, ck - 1), s)
Terminates == <>AllDone
=============================================================================
