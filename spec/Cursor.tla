------------------------------ MODULE Cursor ------------------------------
(* Validation cursor, execution frontier and rewind timestamps of grevm
   (src/scheduler/cursor.rs, src/scheduler/context.rs), one action per atomic operation.
   Action names are the hook labels (group CURSOR) of the implementation:

     claimers    next_validation_idx(exec):  XF_CurLoad  XF_CurExec  [advance]  XF_CurReload
                                             VC_Load  VC_Cas (retry loop)            context.rs:58-67,196-199; cursor.rs:80-94
     publishers  executed(i):                XF_PubLoad1  XF_PubStore  XF_PubLoad2  [advance]   context.rs:40-53
     advance(start):                         XF_AdvExec*  XF_AdvMax (loop)                      context.rs:21-34
     rewinders   rewind_validation_to(i):    T_Clock  T_Lower  VC_Rewind                        context.rs:102-115

   A run is described by a script (who does what); the model checker takes it from the set
   Scripts, the trace specification from the RESET record of a recorded run.  After all scripted
   threads have finished, a drainer keeps claiming until it is refused - what a later poller of the
   scheduler would still be handed.

   Guard switches (TRUE = the implementation as read):
     GCas         the claim is a compare-and-swap of the loaded value      (cursor.rs:87)
     GFetchMin    the rewind is one atomic fetch_min                       (cursor.rs:119)
     GReload      publish reloads the frontier after its store             (context.rs:49)
     GFetchMax    advance publishes with fetch_max (never moves back)      (context.rs:31)         *)
EXTENDS Integers, FiniteSets, Sequences, TLC

CONSTANTS Scripts, GCas, GFetchMin, GReload, GFetchMax

VARIABLES script,      \* the run's script
          valIdx,      \* RewindableCursor
          executed,    \* ExecutionFrontier.executed
          frontier,    \* ExecutionFrontier.frontier
          clock,       \* logical_clock
          lowerTs,     \* lower_timestamps
          pc, loc,     \* per thread
          pending,     \* ghost: rewound indices not yet handed out again
          claims       \* ghost: number of successful claims per index

vars == <<script, valIdx, executed, frontier, clock, lowerTs, pc, loc, pending, claims>>

MaxN == 6
Idx == 0..(MaxN - 1)
Min(a, b) == IF a < b THEN a ELSE b
Max(a, b) == IF a > b THEN a ELSE b

Claimers(s) == {"c" \o ToString(k) : k \in 1..Len(s.claimers)}
Rewinders(s) == {"r" \o ToString(k) : k \in 1..Len(s.rewinders)}
Publishers(s) == {"p" \o ToString(k) : k \in 1..Len(s.publishers)}
Threads == {"c1", "c2", "c3", "r1", "r2", "p1", "p2", "p3", "d"}
Num(t) == CASE t \in {"c1", "r1", "p1"} -> 1 [] t \in {"c2", "r2", "p2"} -> 2 [] OTHER -> 3
Active(s) == Claimers(s) \cup Rewinders(s) \cup Publishers(s)

Prefix(ex, n) == LET S == {k \in 0..n : \A j \in 0..(k - 1) : ex[j]} IN CHOOSE m \in S : \A x \in S : x <= m

NoLoc == [f |-> 0, limit |-> 0, cur |-> 0, start |-> 0, end |-> 0, ts |-> 0, left |-> 0, idx |-> 0,
          ret |-> "none", last |-> -1]

InitFor(s) ==
  LET ex == [i \in Idx |-> i \in {s.pre_executed[k] : k \in 1..Len(s.pre_executed)}]
      pf == Prefix(ex, s.n)
  IN /\ script = s
     /\ executed = ex
     /\ frontier = pf
     /\ valIdx = Min(s.pre_claimed, Min(s.exec_idx, pf))
     /\ clock = 1
     /\ lowerTs = [i \in Idx |-> 0]
     /\ pc = [t \in Threads |->
               IF t \in Claimers(s) THEN (IF s.claimers[Num(t)] = 0 THEN "done" ELSE "cur_load")
               ELSE IF t \in Rewinders(s) THEN "t_clock"
               ELSE IF t \in Publishers(s) THEN "pub_load1"
               ELSE IF t = "d" THEN "wait" ELSE "off"]
     /\ loc = [t \in Threads |->
               IF t \in Claimers(s) THEN [NoLoc EXCEPT !.left = s.claimers[Num(t)]]
               ELSE IF t \in Rewinders(s) THEN [NoLoc EXCEPT !.idx = s.rewinders[Num(t)]]
               ELSE IF t \in Publishers(s) THEN [NoLoc EXCEPT !.idx = s.publishers[Num(t)]]
               ELSE NoLoc]
     /\ pending = {}
     /\ claims = [i \in Idx |-> 0]

Init == \E s \in Scripts : InitFor(s)

N == script.n
Limit(f) == Min(script.exec_idx, f)

(* ------------------------------ claim attempt ------------------------------ *)
XF_CurLoad(t) ==
  /\ pc[t] = "cur_load"
  /\ IF frontier < N
     THEN /\ pc' = [pc EXCEPT ![t] = "cur_exec"]
          /\ loc' = [loc EXCEPT ![t].f = frontier]
     ELSE /\ pc' = [pc EXCEPT ![t] = "vc_load"]
          /\ loc' = [loc EXCEPT ![t].f = frontier, ![t].limit = Limit(frontier)]
  /\ UNCHANGED <<script, valIdx, executed, frontier, clock, lowerTs, pending, claims>>

XF_CurExec(t) ==
  /\ pc[t] = "cur_exec"
  /\ IF executed[loc[t].f]
     THEN /\ pc' = [pc EXCEPT ![t] = "adv_scan"]
          /\ loc' = [loc EXCEPT ![t].start = loc[t].f, ![t].end = loc[t].f, ![t].ret = "cur_reload"]
     ELSE /\ pc' = [pc EXCEPT ![t] = "vc_load"]
          /\ loc' = [loc EXCEPT ![t].limit = Limit(loc[t].f)]
  /\ UNCHANGED <<script, valIdx, executed, frontier, clock, lowerTs, pending, claims>>

XF_CurReload(t) ==
  /\ pc[t] = "cur_reload"
  /\ pc' = [pc EXCEPT ![t] = "vc_load"]
  /\ loc' = [loc EXCEPT ![t].f = frontier, ![t].limit = Limit(frontier)]
  /\ UNCHANGED <<script, valIdx, executed, frontier, clock, lowerTs, pending, claims>>

(* ------------------------------ advance(start) ------------------------------ *)
AfterScan(t, end) ==   \* the scan stopped at `end`
  IF end = loc[t].start
  THEN /\ pc' = [pc EXCEPT ![t] = loc[t].ret]
       /\ loc' = [loc EXCEPT ![t].end = end]
  ELSE /\ pc' = [pc EXCEPT ![t] = "adv_max"]
       /\ loc' = [loc EXCEPT ![t].end = end]

XF_AdvExec(t) ==
  /\ pc[t] = "adv_scan" /\ loc[t].end < N
  /\ IF executed[loc[t].end]
     THEN IF loc[t].end + 1 < N
          THEN /\ loc' = [loc EXCEPT ![t].end = @ + 1] /\ UNCHANGED pc
          ELSE AfterScan(t, loc[t].end + 1)
     ELSE AfterScan(t, loc[t].end)
  /\ UNCHANGED <<script, valIdx, executed, frontier, clock, lowerTs, pending, claims>>

XF_AdvMax(t) ==
  /\ pc[t] = "adv_max"
  /\ frontier' = IF GFetchMax THEN Max(frontier, loc[t].end) ELSE loc[t].end
  /\ LET s == Max(frontier, loc[t].end) IN
       IF s >= N
       THEN /\ pc' = [pc EXCEPT ![t] = loc[t].ret]
            /\ loc' = [loc EXCEPT ![t].start = s, ![t].end = s]
       ELSE /\ pc' = [pc EXCEPT ![t] = "adv_scan"]
            /\ loc' = [loc EXCEPT ![t].start = s, ![t].end = s]
  /\ UNCHANGED <<script, valIdx, executed, clock, lowerTs, pending, claims>>

(* ------------------------------ claim_before(limit) ------------------------------ *)
EndAttempt(t, got) ==   \* the attempt returns `got` (-1 = None); the next attempt starts at once
  /\ pc' = [pc EXCEPT ![t] = IF t = "d" THEN (IF got = -1 THEN "done" ELSE "cur_load")
                             ELSE IF loc[t].left = 1 THEN "done" ELSE "cur_load"]

VC_Load(t) ==
  /\ pc[t] = "vc_load"
  /\ IF valIdx >= loc[t].limit
     THEN /\ EndAttempt(t, -1)
          /\ loc' = [loc EXCEPT ![t].cur = valIdx, ![t].left = IF t = "d" THEN @ ELSE @ - 1, ![t].last = -1]
     ELSE /\ pc' = [pc EXCEPT ![t] = "vc_cas"]
          /\ loc' = [loc EXCEPT ![t].cur = valIdx]
  /\ UNCHANGED <<script, valIdx, executed, frontier, clock, lowerTs, pending, claims>>

VC_Cas(t) ==
  /\ pc[t] = "vc_cas"
  /\ IF valIdx = loc[t].cur \/ ~GCas
     THEN /\ valIdx' = IF GCas THEN loc[t].cur + 1 ELSE valIdx + 1
          /\ pending' = pending \ {loc[t].cur}
          /\ claims' = [claims EXCEPT ![loc[t].cur] = @ + 1]
          /\ EndAttempt(t, loc[t].cur)
          /\ loc' = [loc EXCEPT ![t].left = IF t = "d" THEN @ ELSE @ - 1, ![t].last = loc[t].cur]
     ELSE /\ pc' = [pc EXCEPT ![t] = "vc_load"]
          /\ UNCHANGED <<valIdx, pending, claims, loc>>
  /\ UNCHANGED <<script, executed, frontier, clock, lowerTs>>

(* ------------------------------ executed(i) ------------------------------ *)
XF_PubLoad1(t) ==
  /\ pc[t] = "pub_load1"
  /\ pc' = [pc EXCEPT ![t] = IF loc[t].idx < frontier THEN "done" ELSE "pub_store"]
  /\ loc' = [loc EXCEPT ![t].f = frontier]
  /\ UNCHANGED <<script, valIdx, executed, frontier, clock, lowerTs, pending, claims>>

XF_PubStore(t) ==
  /\ pc[t] = "pub_store"
  /\ executed' = [executed EXCEPT ![loc[t].idx] = TRUE]
  /\ pc' = [pc EXCEPT ![t] = IF GReload THEN "pub_load2"
                             ELSE IF loc[t].idx = loc[t].f THEN "adv_scan" ELSE "done"]
  /\ loc' = IF GReload THEN loc
            ELSE [loc EXCEPT ![t].start = loc[t].f, ![t].end = loc[t].f, ![t].ret = "done"]
  /\ UNCHANGED <<script, valIdx, frontier, clock, lowerTs, pending, claims>>

XF_PubLoad2(t) ==
  /\ pc[t] = "pub_load2"
  /\ IF loc[t].idx = frontier
     THEN /\ pc' = [pc EXCEPT ![t] = "adv_scan"]
          /\ loc' = [loc EXCEPT ![t].f = frontier, ![t].start = frontier, ![t].end = frontier, ![t].ret = "done"]
     ELSE /\ pc' = [pc EXCEPT ![t] = "done"]
          /\ loc' = [loc EXCEPT ![t].f = frontier]
  /\ UNCHANGED <<script, valIdx, executed, frontier, clock, lowerTs, pending, claims>>

(* ------------------------------ rewind_validation_to(i) ------------------------------ *)
T_Clock(t) ==
  /\ pc[t] = "t_clock"
  /\ clock' = clock + 1
  /\ loc' = [loc EXCEPT ![t].ts = clock]
  /\ pc' = [pc EXCEPT ![t] = "t_lower"]
  /\ UNCHANGED <<script, valIdx, executed, frontier, lowerTs, pending, claims>>

T_Lower(t) ==
  /\ pc[t] = "t_lower"
  /\ lowerTs' = [lowerTs EXCEPT ![loc[t].idx] = Max(@, loc[t].ts)]
  /\ pc' = [pc EXCEPT ![t] = IF GFetchMin THEN "vc_rewind" ELSE "vc_rewind_load"]
  /\ UNCHANGED <<script, valIdx, executed, frontier, clock, loc, pending, claims>>

VC_Rewind(t) ==
  /\ pc[t] = "vc_rewind"
  /\ valIdx' = Min(valIdx, loc[t].idx)
  /\ pending' = pending \cup {k \in Idx : loc[t].idx <= k /\ k < valIdx}
  /\ pc' = [pc EXCEPT ![t] = "done"]
  /\ UNCHANGED <<script, executed, frontier, clock, lowerTs, loc, claims>>

(* GFetchMin = FALSE: the rewind as a load followed by a store (what a careless refactor writes) *)
VC_RewindLoad(t) ==
  /\ pc[t] = "vc_rewind_load"
  /\ loc' = [loc EXCEPT ![t].cur = valIdx]
  /\ pc' = [pc EXCEPT ![t] = "vc_rewind_store"]
  /\ UNCHANGED <<script, valIdx, executed, frontier, clock, lowerTs, pending, claims>>

VC_RewindStore(t) ==
  /\ pc[t] = "vc_rewind_store"
  /\ valIdx' = Min(loc[t].cur, loc[t].idx)
  /\ pending' = pending \cup {k \in Idx : loc[t].idx <= k /\ k < loc[t].cur}
  /\ pc' = [pc EXCEPT ![t] = "done"]
  /\ UNCHANGED <<script, executed, frontier, clock, lowerTs, loc, claims>>

(* ------------------------------ drainer ------------------------------ *)
ScriptedDone == \A t \in Active(script) : pc[t] = "done"

D_Start ==
  /\ pc["d"] = "wait" /\ ScriptedDone
  /\ pc' = [pc EXCEPT !["d"] = "cur_load"]
  /\ loc' = [loc EXCEPT !["d"].left = 1]
  /\ UNCHANGED <<script, valIdx, executed, frontier, clock, lowerTs, pending, claims>>

AllDone == ScriptedDone /\ pc["d"] = "done"

Step(t) == \/ XF_CurLoad(t) \/ XF_CurExec(t) \/ XF_CurReload(t) \/ XF_AdvExec(t)
           \/ XF_AdvMax(t) \/ VC_Load(t) \/ VC_Cas(t) \/ XF_PubLoad1(t) \/ XF_PubStore(t)
           \/ XF_PubLoad2(t) \/ T_Clock(t) \/ T_Lower(t) \/ VC_Rewind(t) \/ VC_RewindLoad(t)
           \/ VC_RewindStore(t)

Next == (\E t \in Threads : Step(t)) \/ D_Start \/ (AllDone /\ UNCHANGED vars)

Spec == Init /\ [][Next]_vars /\ \A t \in Threads : WF_vars(Step(t)) /\ WF_vars(D_Start)

(* ------------------------------ properties (C15) ------------------------------ *)
ExecPrefix == Prefix(executed, N)

(* the frontier never passes a transaction that has not completed an execution *)
FrontierSound == \A j \in Idx : j < frontier => executed[j]

(* no index at or beyond the limit the claimer read is ever handed out; what is handed out has
   completed an execution                                                                        *)
ClaimBelowLimit ==
  \A t \in Threads : pc[t] = "vc_cas" =>
     /\ loc[t].cur < loc[t].limit /\ loc[t].limit <= script.exec_idx /\ loc[t].cur < N
     /\ executed[loc[t].cur]

(* every index from a rewind target up to the previous cursor position is offered again: it stays
   at or ahead of the cursor until it is handed out                                              *)
NoLostRewind == \A k \in pending : valIdx <= k

(* once every publisher has returned the frontier has caught up with the executed prefix (a
   reader would help a delayed publisher; here nobody is delayed any more)                       *)
PublishersDone == \A t \in Publishers(script) : pc[t] = "done"
ClaimersQuiet == \A t \in Claimers(script) \cup {"d"} : pc[t] \notin {"adv_scan", "adv_max", "cur_reload", "cur_exec"}
FrontierCatchesUp == (PublishersDone /\ ClaimersQuiet) => frontier = ExecPrefix

(* at the end nothing that was rewound below the final limit is left unclaimed *)
FinalLimit == Min(script.exec_idx, ExecPrefix)
RewoundAllReoffered == AllDone => \A k \in pending : k >= FinalLimit

Terminates == <>AllDone
=============================================================================
