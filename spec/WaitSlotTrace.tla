-------------------------- MODULE WaitSlotTrace --------------------------
(* Trace validation of the production WaitSlot (probe runs under the step controller) against
   WaitSlot.tla: every recorded event must be an enabled step of the specification with the
   logged values, and the specification's invariants are evaluated after every event.
   Runs are concatenated; a RESET record starts the next run.                                    *)
EXTENDS WaitSlot, Json, IOUtils, TLCExt

VARIABLE l

Rec == ndJsonDeserialize(IOEnv.TRACE)

tvars == <<registered, token, cond, wpc, npc, l>>

TraceInit == Init /\ l = 1

Has(e) == l <= Len(Rec) /\ Rec[l].l = e /\ l' = l + 1

Reset ==
  /\ Has("RESET")
  /\ registered' = FALSE /\ token' = FALSE /\ cond' = FALSE
  /\ wpc' = "register"
  /\ npc' = [n \in AllNotifiers |-> 1]

TraceNext ==
  \/ Reset
  \/ Has("N_Register") /\ N_Register
  \/ Has("W_LoopRead") /\ W_LoopRead /\ Rec[l].cond = cond
  \/ Has("W_Check") /\ W_Check /\ Rec[l].blocked = ~cond
  \/ Has("N_Yield") /\ N_Yield
  \/ Has("N_Park") /\ N_Park
  \/ Has("P_Publish") /\ P_Publish(Rec[l].t)
  \/ Has("N_Notify") /\ N_Notify(Rec[l].t) /\ Rec[l].registered = registered

TraceSpec == TraceInit /\ [][TraceNext]_tvars

(* The run that just ended must have left the waiter returned (checked at each RESET and, for
   the last run, by the harness).                                                                *)
RunsEndReturned == (l <= Len(Rec) /\ Rec[l].l = "RESET" /\ l > 1) => wpc = "done"

TraceAccepted ==
  LET d == TLCGet("stats").diameter IN
  IF d - 1 = Len(Rec) THEN TRUE
  ELSE Print(<<"TRACE REJECTED at record", d, IF d <= Len(Rec) THEN Rec[d] ELSE "eof">>, FALSE)
=============================================================================
