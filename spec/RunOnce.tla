------------------------------ MODULE RunOnce ------------------------------
(* One-shot execution of a Scheduler (src/scheduler/control.rs:47-79, fallback.rs:51-53): any
   number of concurrent or successive calls of execute(), parallel_execute() and
   fallback_sequential() elect exactly one caller that runs the block; every other call returns
   the "can execute only once" error without touching outcomes or state.

     M_RunOnce(c)   the compare-exchange on `started`                      control.rs:62
     M_Run(c)       the elected caller executes the block (parallel or sequential path); its
                    effect on outcomes / state is one application of the block
     M_Return(c)    the call returns

   GCas = FALSE models the election as a load followed by a store.                              *)
EXTENDS Naturals, FiniteSets, TLC

CONSTANTS Callers,   \* e.g. {"m0", "m1", "m2"}
          Entry,     \* function Callers -> {"execute", "fallback_sequential"} is irrelevant to the election
          GCas

VARIABLES started, applied, outcomesLen, pc, won, saw
vars == <<started, applied, outcomesLen, pc, won, saw>>
BlockSize == 2

Init == /\ started = FALSE /\ applied = 0 /\ outcomesLen = 0
        /\ pc = [c \in Callers |-> "call"] /\ won = [c \in Callers |-> FALSE] /\ saw = [c \in Callers |-> FALSE]

M_RunOnce(c) ==
  /\ pc[c] = "call" /\ GCas
  /\ won' = [won EXCEPT ![c] = ~started]
  /\ started' = TRUE
  /\ pc' = [pc EXCEPT ![c] = IF ~started THEN "run" ELSE "return"]
  /\ UNCHANGED <<applied, outcomesLen, saw>>

M_Load(c) ==      \* ~GCas
  /\ pc[c] = "call" /\ ~GCas
  /\ saw' = [saw EXCEPT ![c] = started]
  /\ pc' = [pc EXCEPT ![c] = "store"]
  /\ UNCHANGED <<started, applied, outcomesLen, won>>

M_Store(c) ==
  /\ pc[c] = "store"
  /\ won' = [won EXCEPT ![c] = ~saw[c]]
  /\ started' = TRUE
  /\ pc' = [pc EXCEPT ![c] = IF ~saw[c] THEN "run" ELSE "return"]
  /\ UNCHANGED <<applied, outcomesLen, saw>>

M_Run(c) ==
  /\ pc[c] = "run"
  /\ applied' = applied + 1
  /\ outcomesLen' = outcomesLen + BlockSize
  /\ pc' = [pc EXCEPT ![c] = "return"]
  /\ UNCHANGED <<started, won, saw>>

M_Return(c) ==
  /\ pc[c] = "return"
  /\ pc' = [pc EXCEPT ![c] = "done"]
  /\ UNCHANGED <<started, applied, outcomesLen, won, saw>>

AllDone == \A c \in Callers : pc[c] = "done"
Next == (\E c \in Callers : M_RunOnce(c) \/ M_Load(c) \/ M_Store(c) \/ M_Run(c) \/ M_Return(c)) \/ (AllDone /\ UNCHANGED vars)
Spec == Init /\ [][Next]_vars /\ \A c \in Callers : WF_vars(M_RunOnce(c) \/ M_Load(c) \/ M_Store(c) \/ M_Run(c) \/ M_Return(c))

(* C14 *)
AtMostOnce == applied <= 1 /\ outcomesLen <= BlockSize
OneWinner == Cardinality({c \in Callers : won[c]}) <= 1
ExactlyOnce == AllDone => (applied = 1 /\ Cardinality({c \in Callers : won[c]}) = 1 /\ outcomesLen = BlockSize)
UntouchedBefore == (~started) => (applied = 0 /\ outcomesLen = 0)
Terminates == <>AllDone
=============================================================================
