----------------------------- MODULE TxDepTrace -----------------------------
(* Trace validation of the production TxDependency (driven by the probe's workers and commit
   thread under the step controller) against TxDep.tla.                                          *)
EXTENDS TxDep, Json, IOUtils, TLCExt

VARIABLE l
Rec == ndJsonDeserialize(IOEnv.TRACE)
tvars == <<vars, l>>

Has(e) == l <= Len(Rec) /\ Rec[l].l = e /\ l' = l + 1
R == Rec[l]
T == Rec[l].t

ScriptOf(r) == [n |-> r.n, workers |-> r.workers, attempts |-> r.attempts]

TraceInit == l = 1 /\ Rec[1].l = "RESET" /\ InitFor(ScriptOf(Rec[1]))

Reset ==
  /\ Has("RESET")
  /\ LET s == ScriptOf(R) IN
     /\ script' = s
     /\ onboard' = [i \in Tx |-> TRUE] /\ dep' = [i \in Tx |-> -1] /\ affects' = [i \in Tx |-> {}]
     /\ index' = 0 /\ committed' = 0
     /\ dsLock' = [i \in Tx |-> "free"] /\ afLock' = [i \in Tx |-> "free"]
     /\ status' = [i \in Tx |-> "Ready"] /\ inc' = [i \in Tx |-> 0] /\ done' = FALSE
     /\ pc' = [t \in Threads |-> IF t \in ActiveWorkers(s) THEN "tw_loop" ELSE IF t = "com" THEN "tc_poll" ELSE "off"]
     /\ loc' = [t \in Threads |-> NoLoc]
     /\ txLock' = [i \in Tx |-> "free"] /\ premature' = FALSE

SetOf(seq) == {seq[k] : k \in 1..Len(seq)}
OutStr(o) == o.k
TraceNext ==
  \/ Reset
  \/ Has("TW_Loop") /\ TW_Loop(T) /\ R.done = done
  \/ Has("DN_Load") /\ DN_Load(T) /\ R.index = index
  \/ Has("DN_FetchAdd") /\ DN_FetchAdd(T) /\ R.index = index
  \/ Has("DN_Take") /\ DN_Take(T) /\ R.tx = loc[T].tx /\ R.ok = (onboard[loc[T].tx] /\ dep[loc[T].tx] = -1)
  \/ Has("TW_Task") /\ TW_Task(T) /\ R.tx = loc[T].tx
       /\ R.kind = (CASE status[loc[T].tx] = "Ready" -> "execute" [] status[loc[T].tx] = "Executing" -> "duplicate" [] OTHER -> "past")
  \/ Has("TW_Exec") /\ TW_Exec(T) /\ R.tx = loc[T].tx /\ R.kind = Outcome(loc[T].tx, inc[loc[T].tx]).k
       /\ R.b = Outcome(loc[T].tx, inc[loc[T].tx]).b
  \/ Has("TW_Status") /\ TW_Status(T) /\ R.tx = loc[T].tx /\ R.status = status'[loc[T].tx]
  \/ Has("DR_Begin") /\ DR_Begin(T) /\ R.tx = loc[T].tx /\ R.pop = loc[T].pop /\ SetOf(R.affects) = affects[loc[T].tx]
  \/ Has("DR_Lock") /\ DR_Lock(T, R.dep) /\ R.tx = loc[T].tx
  \/ Has("DX_Load") /\ DX_Load(T) /\ R.index = index
  \/ Has("DX_Min") /\ DX_Min(T) /\ R.to = loc[T].minto
  \/ Has("DR_Dep") /\ DR_Dep(T) /\ R.dep = loc[T].d
  \/ Has("DR_End") /\ DR_End(T) /\ R.tx = loc[T].tx /\ R.next = loc[T].next
  \/ Has("DK_Lock") /\ DK_Lock(T) /\ R.tx = loc[T].tx
  \/ Has("DX_Committed") /\ DX_Committed(T) /\ R.committed = committed
  \/ Has("DK_KeyTx") /\ DK_KeyTx(T) /\ R.tx = loc[T].tx /\ R.dep = dep[loc[T].tx]
  \/ Has("DA_Lock1") /\ DA_Lock1(T) /\ R.tx = loc[T].tx /\ R.dep = loc[T].b
  \/ Has("DA_Lock2") /\ DA_Lock2(T) /\ R.tx = loc[T].tx
  \/ Has("DA_Lock3") /\ DA_Lock3(T) /\ R.tx = loc[T].tx
  \/ Has("DA_Add") /\ DA_Add(T) /\ R.tx = loc[T].tx /\ R.dep = loc[T].b
  \/ Has("TC_Poll") /\ TC_Poll /\ R.tx = K /\ R.ready = (status[K] = "Validated")
  \/ Has("TC_Publish") /\ TC_Publish /\ R.com = K + 1
  \/ Has("DC_Lock") /\ DC_Lock /\ R.tx = K
  \/ Has("DC_Commit") /\ DC_Commit /\ R.tx = K
  \/ Has("TC_Done") /\ TC_Done

TraceSpec == TraceInit /\ [][TraceNext]_tvars

TraceAccepted ==
  LET d == TLCGet("stats").diameter IN
  IF d - 1 = Len(Rec) THEN TRUE
  ELSE Print(<<"TRACE REJECTED at record", d, IF d <= Len(Rec) THEN Rec[d] ELSE "eof">>, FALSE)
=============================================================================
