---------------------------- MODULE CursorTrace ----------------------------
(* Trace validation of the production cursors / frontier / rewind (context.rs, cursor.rs, driven
   by the probe under the step controller) against Cursor.tla.  One record per atomic operation;
   logged values must equal the values of the specification state.                                *)
EXTENDS Cursor, Json, IOUtils, TLCExt

VARIABLE l
Rec == ndJsonDeserialize(IOEnv.TRACE)
tvars == <<script, valIdx, executed, frontier, clock, lowerTs, pc, loc, pending, claims, l>>

Has(e) == l <= Len(Rec) /\ Rec[l].l = e /\ l' = l + 1
R == Rec[l]
T == Rec[l].t

ScriptOf(r) == [n |-> r.n, exec_idx |-> r.exec_idx, pre_executed |-> r.pre_executed,
                pre_claimed |-> r.pre_claimed, claimers |-> r.claimers, rewinders |-> r.rewinders,
                publishers |-> r.publishers]

TraceInit == l = 1 /\ Rec[1].l = "RESET" /\ InitFor(ScriptOf(Rec[1]))

Reset ==
  /\ Has("RESET")
  /\ LET s == ScriptOf(R)
         ex == [i \in Idx |-> i \in {s.pre_executed[k] : k \in 1..Len(s.pre_executed)}]
         pf == Prefix(ex, s.n)
     IN /\ script' = s /\ executed' = ex /\ frontier' = pf
        /\ valIdx' = Min(s.pre_claimed, Min(s.exec_idx, pf))
        /\ clock' = 1 /\ lowerTs' = [i \in Idx |-> 0]
        /\ pc' = [t \in Threads |->
                   IF t \in Claimers(s) THEN (IF s.claimers[Num(t)] = 0 THEN "done" ELSE "cur_load")
                   ELSE IF t \in Rewinders(s) THEN "t_clock"
                   ELSE IF t \in Publishers(s) THEN "pub_load1"
                   ELSE IF t = "d" THEN "wait" ELSE "off"]
        /\ loc' = [t \in Threads |->
                   IF t \in Claimers(s) THEN [NoLoc EXCEPT !.left = s.claimers[Num(t)]]
                   ELSE IF t \in Rewinders(s) THEN [NoLoc EXCEPT !.idx = s.rewinders[Num(t)]]
                   ELSE IF t \in Publishers(s) THEN [NoLoc EXCEPT !.idx = s.publishers[Num(t)]]
                   ELSE NoLoc]
        /\ pending' = {} /\ claims' = [i \in Idx |-> 0]

TraceNext ==
  \/ Reset
  \/ Has("XF_CurLoad") /\ XF_CurLoad(T) /\ R.frontier = frontier
  \/ Has("XF_CurExec") /\ XF_CurExec(T) /\ R.i = loc[T].f /\ R.set = executed[loc[T].f]
  \/ Has("XF_CurReload") /\ XF_CurReload(T) /\ R.frontier = frontier
  \/ Has("XF_AdvExec") /\ XF_AdvExec(T) /\ R.i = loc[T].end /\ R.set = executed[loc[T].end]
  \/ Has("XF_AdvMax") /\ XF_AdvMax(T) /\ R.end = loc[T].end /\ R.prev = frontier
  \/ Has("VC_Load") /\ VC_Load(T) /\ R.cur = valIdx /\ R.limit = loc[T].limit
  \/ Has("VC_Cas") /\ VC_Cas(T) /\ R.cur = loc[T].cur /\ R.ok = (valIdx = loc[T].cur)
  \/ Has("VC_Claim") /\ UNCHANGED vars /\ R.limit = loc[T].limit
       /\ loc[T].last = R.idx
  \/ Has("XF_PubLoad1") /\ XF_PubLoad1(T) /\ R.i = loc[T].idx /\ R.frontier = frontier
  \/ Has("XF_PubStore") /\ XF_PubStore(T) /\ R.i = loc[T].idx
  \/ Has("XF_PubLoad2") /\ XF_PubLoad2(T) /\ R.i = loc[T].idx /\ R.frontier = frontier
  \/ Has("T_Clock") /\ T_Clock(T) /\ R.ts = clock
  \/ Has("T_Lower") /\ T_Lower(T) /\ R.idx = loc[T].idx /\ R.ts = loc[T].ts
  \/ Has("VC_Rewind") /\ VC_Rewind(T) /\ R.to = loc[T].idx /\ R.prev = valIdx

TraceSpec == TraceInit /\ [][TraceNext]_tvars

TraceAccepted ==
  LET d == TLCGet("stats").diameter IN
  IF d - 1 = Len(Rec) THEN TRUE
  ELSE Print(<<"TRACE REJECTED at record", d, IF d <= Len(Rec) THEN Rec[d] ELSE "eof">>, FALSE)
=============================================================================
