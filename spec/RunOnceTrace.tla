---------------------------- MODULE RunOnceTrace ----------------------------
EXTENDS RunOnce, Json, IOUtils, TLCExt, Sequences
VARIABLE l
Rec == ndJsonDeserialize(IOEnv.TRACE)
tvars == <<vars, l>>
Has(e) == l <= Len(Rec) /\ Rec[l].l = e /\ l' = l + 1
R == Rec[l]
TraceInit == Init /\ l = 1
Reset == /\ Has("RESET")
         /\ started' = FALSE /\ applied' = 0 /\ outcomesLen' = 0
         /\ pc' = [c \in Callers |-> "call"] /\ won' = [c \in Callers |-> FALSE] /\ saw' = [c \in Callers |-> FALSE]
TraceNext ==
  \/ Reset
  \/ Has("M_RunOnce") /\ M_RunOnce(R.t) /\ R.won = ~started
  \/ Has("M_Run") /\ M_Run(R.t)
  \/ Has("M_Return") /\ M_Return(R.t) /\ R.ok = won[R.t]
TraceSpec == TraceInit /\ [][TraceNext]_tvars
TraceAccepted ==
  LET d == TLCGet("stats").diameter IN
  IF d - 1 = Len(Rec) THEN TRUE
  ELSE Print(<<"TRACE REJECTED at record", d, IF d <= Len(Rec) THEN Rec[d] ELSE "eof">>, FALSE)
=============================================================================
