#!/usr/bin/env python3
"""verify_seeded.py <candidate dir>...: confirm a seeded change in a scratch worktree of /repo.

For each candidate (patch.diff or patch.rebased.diff, demo.diff):
  1. the patch applies to /repo's HEAD and the tree builds;
  2. the pinned baseline suite (cargo test --workspace --no-fail-fast --offline, hooks off) passes with the patch;
  3. the demonstration fails with the patch and passes without it.
Writes <candidate dir>/verified.json. The worktree and its build output live under /tmp and are removed at the end.
"""
import json
import os
import re
import shutil
import subprocess
import sys
import time

WT = "/tmp/wt_verify"
TARGET = "/tmp/wt_verify_target"


def sh(cmd, cwd=None, timeout=3600):
    env = dict(os.environ, CARGO_TARGET_DIR=TARGET, CARGO_NET_OFFLINE="true")
    p = subprocess.run(cmd, shell=True, cwd=cwd, stdout=subprocess.PIPE, stderr=subprocess.STDOUT, text=True, env=env, timeout=timeout)
    return p.returncode, p.stdout


def results(out):
    """(passed, failed) summed over every 'test result:' line."""
    ok = sum(int(m.group(1)) for m in re.finditer(r"test result: \w+\. (\d+) passed", out))
    bad = sum(int(m.group(1)) for m in re.finditer(r"test result: \w+\. \d+ passed; (\d+) failed", out))
    return ok, bad


def demo_cmd(cand):
    demo = open(os.path.join(cand, "demo.diff")).read()
    files = re.findall(r"^\+\+\+ b/(\S+)", demo, re.M)
    targets = [os.path.basename(f)[:-3] for f in files if f.startswith("tests/") and f.endswith(".rs")]
    parts = []
    if any(f.startswith("src/") for f in files):
        parts.append("--lib")
    parts += [f"--test {t}" for t in targets]
    return "cargo test --offline --features test-utils --no-fail-fast " + " ".join(parts), files


def reset():
    sh("git checkout -q -- . && git clean -fdq", cwd=WT)


def main(cands):
    if not os.path.isdir(WT):
        rc, out = sh(f"git -C /repo worktree add --detach {WT} HEAD")
        assert rc == 0, out
    head = sh("git rev-parse --short HEAD", cwd=WT)[1].strip()
    for cand in cands:
        cand = os.path.abspath(cand)
        name = os.path.basename(cand)
        patch = os.path.join(cand, "patch.rebased.diff")
        if not os.path.exists(patch):
            patch = os.path.join(cand, "patch.diff")
        res = {"candidate": name, "repo_head": head, "patch": os.path.basename(patch), "checked_at": time.strftime("%Y-%m-%dT%H:%M:%SZ", time.gmtime())}
        try:
            reset()
            rc, out = sh(f"git apply {patch}", cwd=WT)
            res["patch_applies"] = rc == 0
            if rc != 0:
                res["error"] = out[-400:]
                raise RuntimeError("patch does not apply")
            rc, out = sh("cargo test --workspace --no-fail-fast --offline", cwd=WT)
            ok, bad = results(out)
            res["baseline_with_patch"] = {"rc": rc, "passed": ok, "failed": bad, "warnings": len(re.findall(r"^warning", out, re.M))}
            if not os.path.exists(os.path.join(cand, "demo.diff")):
                raise RuntimeError("no demo.diff")
            cmd, files = demo_cmd(cand)
            res["demo_cmd"] = cmd
            res["demo_files"] = files
            rc, out = sh(f"git apply {os.path.join(cand, 'demo.diff')}", cwd=WT)
            if rc != 0:
                res["error"] = "demo does not apply on top of the patch: " + out[-300:]
                raise RuntimeError("demo does not apply")
            rc, out = sh(cmd, cwd=WT)
            ok, bad = results(out)
            failed = sorted(set(re.findall(r"^test (\S+) \.\.\. FAILED", out, re.M)))
            res["demo_with_patch"] = {"rc": rc, "passed": ok, "failed": bad, "failed_tests": failed[:10]}
            if rc != 0 and bad == 0:
                res["demo_with_patch"]["tail"] = out[-600:]
            reset()
            rc, out = sh(f"git apply {os.path.join(cand, 'demo.diff')}", cwd=WT)
            if rc != 0:
                res["error"] = "demo does not apply to the unchanged tree: " + out[-300:]
                raise RuntimeError("demo does not apply alone")
            rc, out = sh(cmd, cwd=WT)
            ok, bad = results(out)
            res["demo_without_patch"] = {"rc": rc, "passed": ok, "failed": bad, "failed_tests": sorted(set(re.findall(r"^test (\S+) \.\.\. FAILED", out, re.M)))[:10]}
            if rc != 0 and bad == 0:
                res["demo_without_patch"]["tail"] = out[-600:]
            res["confirmed"] = (res["baseline_with_patch"]["rc"] == 0 and res["baseline_with_patch"]["failed"] == 0 and res["baseline_with_patch"]["passed"] >= 95
                                and res["demo_with_patch"]["rc"] != 0 and res["demo_with_patch"]["failed"] > 0
                                and res["demo_without_patch"]["rc"] == 0 and res["demo_without_patch"]["failed"] == 0)
        except Exception as e:  # noqa: BLE001
            res.setdefault("error", str(e))
            res["confirmed"] = False
        with open(os.path.join(cand, "verified.json"), "w") as f:
            json.dump(res, f, indent=1)
        print(name, "confirmed" if res["confirmed"] else "NOT CONFIRMED", json.dumps({k: v for k, v in res.items() if k in ("error", "baseline_with_patch", "demo_with_patch", "demo_without_patch")})[:600], flush=True)
    reset()
    sh(f"git -C /repo worktree remove --force {WT}")
    shutil.rmtree(TARGET, ignore_errors=True)


if __name__ == "__main__":
    main(sys.argv[1:])
