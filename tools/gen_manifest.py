#!/usr/bin/env python3
"""Regenerate /verif/MANIFEST.json from the table below (single place to edit)."""
import json
import os
import subprocess

ROOT = os.path.dirname(os.path.dirname(os.path.abspath(__file__)))

CLAIMS = {
    "C17": dict(
        category="model_checking",
        text="WaitSlot.tla (one waiter, publishing and spurious notifiers, park without timeout) is model-checked exhaustively for the lost-wake-up invariant, deadlock and liveness; the production WaitSlot is then driven through every interleaving (depth-first, preemption-bounded for the larger configurations) of the coordinator protocol under the step controller, a deadlock of that run being a lost wake-up, and every recorded run is validated as a behaviour of the specification with its invariants evaluated per event.",
        design_ref="DESIGN.md section 6 (C17), 5.2, 5.3",
        note="std park/unpark token semantics; sequentially consistent memory; schedule points at the hook sites only; scheduler-level producers (validate, finality loop, cancel) are covered through the C05 scheduler runs",
        technique="TLC model checking of WaitSlot.tla + exhaustive controlled interleavings of the production WaitSlot validated against the spec (trace validation)",
    ),
}

NOT_YET = "machinery under construction in this round; not yet claimed"


def main():
    props = [json.loads(l)["id"] for l in open(os.path.join(ROOT, "properties.jsonl"))]
    commits = subprocess.run(["git", "-C", "/repo", "log", "--format=%h %s", "63c0247..HEAD"],
                             stdout=subprocess.PIPE, text=True).stdout.splitlines()
    hooks = [c.split()[0] for c in commits if " verif:" in c]
    checks = []
    for p in props:
        if p not in CLAIMS:
            continue
        c = CLAIMS[p]
        checks.append({
            "property_id": p,
            "quick_cmd": f"./check {p} --tier quick",
            "thorough_cmd": f"./check {p} --tier thorough",
            "evidence_file": f"/verif/evidence/{p}.json",
            "replay_cmd_template": "./check replay {path}",
            "engine": "tlc+harness",
            "level_claimed": {"category": c["category"], "text": c["text"], "design_ref": c["design_ref"]},
            "level_note": c["note"],
            "technique": c["technique"],
        })
    m = {
        "version": 1,
        "setup_cmd": "./check setup",
        "hooks": {
            "guard": "--cfg grevm_verif",
            "enable": "rustflags in /verif/harness/.cargo/config.toml: --cfg grevm_verif --check-cfg cfg(grevm_verif); the harness has a path dependency on /repo",
            "baseline_off_cmd": "cd /repo && cargo test --workspace --no-fail-fast --offline",
            "source_commits": hooks,
            "add_only": False,
        },
        "engines": [
            {"name": "tlc+harness", "path": "/verif/check", "serves_properties": sorted(CLAIMS),
             "kind_free_text": "TLA+ specifications under /verif/spec checked with TLC; Rust harness (/verif/harness) drives the real code under a deterministic step controller; recorded traces validated against the specifications"},
        ],
        "checks": checks,
        "not_applicable": [{"property_id": p, "reason": NOT_YET} for p in props if p not in CLAIMS],
        "notes": "see DESIGN.md",
    }
    with open(os.path.join(ROOT, "MANIFEST.json"), "w") as f:
        json.dump(m, f, indent=1)


if __name__ == "__main__":
    main()
