#!/usr/bin/env python3
"""Regenerate /verif/MANIFEST.json from the table below (single place to edit)."""
import json
import os
import subprocess

ROOT = os.path.dirname(os.path.dirname(os.path.abspath(__file__)))

SCHED_NOTE = ("Grevm.tla at the grain of the SCHED hook points; blocks of spec/grevm_blocks.json; one thread runs at a time "
              "under the controller, switching at hook points only; sequentially consistent memory; stock revm (same precompile adapter) as in-order oracle")
SCHED_TECH = ("TLC model checking of Grevm.tla (guard-switch counterexamples replayed on the code) + controlled runs of the real "
              "scheduler with monitors + TLC trace validation of every recorded run against the specification")

CLAIMS = {
    "C01": dict(category="model_checking",
                text="Grevm.tla (workers, finality, commit, dependency graph, cursors, wait slots, abort and sequential replay) is model-checked for equality of the final outcomes and state with the in-order reference of the block programs (2-transaction blocks exhaustively, 3-transaction blocks by random behaviours); the real scheduler is run on the concrete blocks under the step controller with 1-3 workers (PCT/random schedules plus the counterexample schedules of the guard switches), outcomes and the full bundle are compared with stock revm, and every recorded run is validated as a behaviour of the specification.",
                design_ref="DESIGN.md 6 (C01), 5", note=SCHED_NOTE, technique=SCHED_TECH),
    "C02": dict(category="model_checking",
                text="Invariants of Grevm.tla on every state: the commit log is in order, once, equal to the in-order effect per transaction (CommitMatchesRef), every finalized incarnation read exactly the in-order pre-state (CommittedReadsFresh), finality never rests on a validation older than a covering rewind (FinalityFresh). On the code every commit event (result digest, state delta, reward) is compared with step k of the stock-revm reference, and the same invariants are evaluated by TLC on each recorded run; guard-switch counterexamples (rewind on new write, storage-origin validation, timestamp checks ...) are replayed.",
                design_ref="DESIGN.md 6 (C02), 5.3, 5.4", note=SCHED_NOTE, technique=SCHED_TECH),
    "C03": dict(category="model_checking",
                text="Grevm.tla with programs whose validity depends on an earlier transaction (both directions) is checked for skip-iff-invalid-in-order and for state equality; the real scheduler runs blocks of plain transfers containing nonce-too-low/high/duplicate, nonce chains, insufficient funds made good or caused by earlier transactions, low intrinsic gas, with the nonce check on and off, on 1-3 workers and on the sequential path; outcomes (InvalidTransaction values included) and bundles are compared with stock revm and traces are validated (commit-time nonce verdicts included).",
                design_ref="DESIGN.md 6 (C03)", note=SCHED_NOTE + "; invalid kinds limited to those plain transfers can express", technique=SCHED_TECH),
    "C04": dict(category="fault_enumeration",
                text="For every database key the block touches (each storage slot, each sender, the driver, the holder, the fee recipient) and both fault modes (persistent, fail-once) the real scheduler is run under controlled schedules and judged as the property states: a persistent fault against in-order execution on the same faulty database, a transient one as absorbed or as an exact prefix; in addition Grevm.tla is model-checked on the error templates (an error seen only by a stale attempt is never reported: FinalOk), and the counterexample of the pre-fix behaviour (finding F2) is replayed on the code.",
                design_ref="DESIGN.md 6 (C04), 7", note=SCHED_NOTE + "; block-hash and code-hash keys are not read by these programs", technique="fault enumeration on the real scheduler under the controller + TLC model checking of Grevm.tla + witness replay"),
    "C05": dict(category="model_checking",
                text="Grevm.tla has no stall timer: TLC's deadlock check on every explored block and <>Terminated under per-thread weak fairness (thorough tier) decide termination of the design, including abort, fallback and fatal paths; the counterexamples of the notification and re-offer guards are deadlocks that are replayed on the code. Under the controller park has no timeout, so a lost wake-up or lost re-offer in the real scheduler is a detected deadlock; runs cover 1-3 workers, error and fallback blocks, and a panic injected at every database key (the payload must reach the caller).",
                design_ref="DESIGN.md 6 (C05)", note=SCHED_NOTE, technique=SCHED_TECH + " (deadlock / liveness)"),
    "C15": dict(category="model_checking",
                text="Cursor.tla (claim_before load/CAS loop, fetch_min rewind, frontier publish/advance/helping reader, rewind timestamps; one action per atomic operation) is model-checked exhaustively on six scripts for: no claim at or beyond the limit read, every rewound index re-offered, frontier never passes an unexecuted transaction and catches up; the production functions are driven through all schedules within a preemption bound plus random ones and every run is validated against the specification. The finality-timestamp clause is decided in Grevm.tla (FinalityFresh).",
                design_ref="DESIGN.md 6 (C15)", note="sequentially consistent memory only: weak-memory reorderings are not explored (stated in the evidence)",
                technique="TLC model checking of Cursor.tla + controlled interleavings of the production cursor functions validated against the spec"),
    "C16": dict(category="model_checking",
                text="TxDep.tla (next/add/remove/commit/key_tx, one action per lock region and per cursor operation, with the scheduler's caller contract and a commit thread) is model-checked for: no orphan (the stuck state is unreachable), one claimer per release, no premature release through a stale reverse edge, termination under fairness; the production TxDependency is driven by probe workers through preemption-bounded and PCT schedules and every run is validated against the specification.",
                design_ref="DESIGN.md 6 (C16)", note="caller contract as modelled; sequentially consistent memory; scripts of spec/txdep_scripts.json",
                technique="TLC model checking of TxDep.tla + controlled interleavings of the production TxDependency validated against the spec"),
    "C17": dict(
        category="model_checking",
        text="WaitSlot.tla (one waiter, publishing and spurious notifiers, park without timeout) is model-checked exhaustively for the lost-wake-up invariant, deadlock and liveness; the production WaitSlot is then driven through every interleaving (depth-first, preemption-bounded for the larger configurations) of the coordinator protocol under the step controller, a deadlock of that run being a lost wake-up, and every recorded run is validated as a behaviour of the specification with its invariants evaluated per event.",
        design_ref="DESIGN.md section 6 (C17), 5.2, 5.3",
        note="std park/unpark token semantics; sequentially consistent memory; schedule points at the hook sites only; scheduler-level producers (validate, finality loop, cancel) are covered through the C05 scheduler runs",
        technique="TLC model checking of WaitSlot.tla + exhaustive controlled interleavings of the production WaitSlot validated against the spec (trace validation)",
    ),
}

NOT_YET = "machinery under construction in this round; not yet claimed"


def main():
    props = [json.loads(l)["id"] for l in open(os.path.join(ROOT, "properties.jsonl"))]
    commits = subprocess.run(["git", "-C", "/repo", "log", "--format=%h %s", "63c0247..HEAD"],
                             stdout=subprocess.PIPE, text=True).stdout.splitlines()
    hooks = [c.split()[0] for c in commits if " verif:" in c]
    checks = []
    for p in props:
        if p not in CLAIMS:
            continue
        c = CLAIMS[p]
        checks.append({
            "property_id": p,
            "quick_cmd": f"./check {p} --tier quick",
            "thorough_cmd": f"./check {p} --tier thorough",
            "evidence_file": f"/verif/evidence/{p}.json",
            "replay_cmd_template": "./check replay {path}",
            "engine": "tlc+harness",
            "level_claimed": {"category": c["category"], "text": c["text"], "design_ref": c["design_ref"]},
            "level_note": c["note"],
            "technique": c["technique"],
        })
    m = {
        "version": 1,
        "setup_cmd": "./check setup",
        "hooks": {
            "guard": "--cfg grevm_verif",
            "enable": "rustflags in /verif/harness/.cargo/config.toml: --cfg grevm_verif --check-cfg cfg(grevm_verif); the harness has a path dependency on /repo",
            "baseline_off_cmd": "cd /repo && cargo test --workspace --no-fail-fast --offline",
            "source_commits": hooks,
            "add_only": False,
        },
        "engines": [
            {"name": "tlc+harness", "path": "/verif/check", "serves_properties": sorted(CLAIMS),
             "kind_free_text": "TLA+ specifications under /verif/spec checked with TLC; Rust harness (/verif/harness) drives the real code under a deterministic step controller; recorded traces validated against the specifications"},
        ],
        "checks": checks,
        "not_applicable": [{"property_id": p, "reason": NOT_YET} for p in props if p not in CLAIMS],
        "notes": "see DESIGN.md",
    }
    with open(os.path.join(ROOT, "MANIFEST.json"), "w") as f:
        json.dump(m, f, indent=1)


if __name__ == "__main__":
    main()
