#!/usr/bin/env python3
"""Regenerate /verif/MANIFEST.json from the table below (single place to edit)."""
import json
import os
import subprocess

ROOT = os.path.dirname(os.path.dirname(os.path.abspath(__file__)))

SCHED_NOTE = ("Grevm.tla at the grain of the SCHED hook points; blocks of spec/grevm_blocks.json; one thread runs at a time "
              "under the controller, switching at hook points only; sequentially consistent memory; stock revm (same precompile adapter) as in-order oracle")
SCHED_TECH = ("TLC model checking of Grevm.tla (guard-switch counterexamples replayed on the code) + controlled runs of the real "
              "scheduler with monitors + TLC trace validation of every recorded run against the specification")

CLAIMS = {
    "C01": dict(category="model_checking",
                text="Grevm.tla (workers, finality, commit, dependency graph, cursors, wait slots, abort and sequential replay) is model-checked for equality of the final outcomes and state with the in-order reference of the block programs (2-transaction blocks exhaustively, 3-transaction blocks by random behaviours); the real scheduler is run on the concrete blocks under the step controller with 1-3 workers (PCT/random schedules plus the counterexample schedules of the guard switches), outcomes and the full bundle are compared with stock revm, and every recorded run is validated as a behaviour of the specification.",
                design_ref="DESIGN.md 6 (C01), 5", note=SCHED_NOTE, technique=SCHED_TECH),
    "C02": dict(category="model_checking",
                text="Invariants of Grevm.tla on every state: the commit log is in order, once, equal to the in-order effect per transaction (CommitMatchesRef), every finalized incarnation read exactly the in-order pre-state (CommittedReadsFresh), finality never rests on a validation older than a covering rewind (FinalityFresh). On the code every commit event (result digest, state delta, reward) is compared with step k of the stock-revm reference, and the same invariants are evaluated by TLC on each recorded run; guard-switch counterexamples (rewind on new write, storage-origin validation, timestamp checks ...) are replayed.",
                design_ref="DESIGN.md 6 (C02), 5.3, 5.4", note=SCHED_NOTE, technique=SCHED_TECH),
    "C03": dict(category="model_checking",
                text="Grevm.tla with programs whose validity depends on an earlier transaction (both directions) is checked for skip-iff-invalid-in-order and for state equality; the real scheduler runs blocks of plain transfers containing nonce-too-low/high/duplicate, nonce chains, insufficient funds made good or caused by earlier transactions, low intrinsic gas, with the nonce check on and off, on 1-3 workers and on the sequential path; outcomes (InvalidTransaction values included) and bundles are compared with stock revm and traces are validated (commit-time nonce verdicts included).",
                design_ref="DESIGN.md 6 (C03)", note=SCHED_NOTE + "; invalid kinds limited to those plain transfers can express", technique=SCHED_TECH),
    "C04": dict(category="fault_enumeration",
                text="For every database key the block touches (each storage slot, each sender, the driver, the holder, the fee recipient) and both fault modes (persistent, fail-once) the real scheduler is run under controlled schedules and judged as the property states: a persistent fault against in-order execution on the same faulty database, a transient one as absorbed or as an exact prefix; in addition Grevm.tla is model-checked on the error templates (an error seen only by a stale attempt is never reported: FinalOk), and the counterexample of the pre-fix behaviour (finding F2) is replayed on the code.",
                design_ref="DESIGN.md 6 (C04), 7", note=SCHED_NOTE + "; block-hash and code-hash keys are not read by these programs", technique="fault enumeration on the real scheduler under the controller + TLC model checking of Grevm.tla + witness replay"),
    "C05": dict(category="model_checking",
                text="Grevm.tla has no stall timer: TLC's deadlock check on every explored block and <>Terminated under per-thread weak fairness (thorough tier) decide termination of the design, including abort, fallback and fatal paths; the counterexamples of the notification and re-offer guards are deadlocks that are replayed on the code. Under the controller park has no timeout, so a lost wake-up or lost re-offer in the real scheduler is a detected deadlock; runs cover 1-3 workers, error and fallback blocks, and a panic injected at every database key (the payload must reach the caller).",
                design_ref="DESIGN.md 6 (C05)", note=SCHED_NOTE, technique=SCHED_TECH + " (deadlock / liveness)"),
    "C06": dict(category="exploration",
                text="Every block of a mixed family (conflict-heavy programs, fatal and stale-fatal blocks, invalid-transaction blocks, fee blocks, destroy / create blocks, EIP-7702 blocks and policy-enabled blocks generated from the rule cases of rules/Delegated.tla) is executed under a configuration matrix - 1/2/3/8 workers, min_parallel_txs 0 / n / n+1, force_sequential, entry point execute / fallback_sequential, repeated - and the observable (success or failing index and error, every outcome, the bundle with statuses, original values, storage and size accounting) must be identical across all configurations; the interleaving dimension is covered by controlled schedules of the same blocks against the in-order reference.",
                design_ref="DESIGN.md 6 (C06)", note="uncontrolled real-thread runs for the matrix; policy blocks have the rule model and path agreement as oracle",
                technique="configuration-matrix differential on blocks enumerated with TLC from the rule specification + controlled schedules"),
    "C08": dict(category="model_checking",
                text="The storage-reset rule (newest of reset marker and slot version, marker masks the backing store, storage written by the resetting transaction wins, both locations in the read set) is part of Grevm.tla and is model-checked through the whole pipeline on destroy-probe, create-with-storage-probe and destroy-recreate-probe blocks (guards GResetMasks / GCreatedWins are load-bearing); destroy / create2 / re-create / create+destroy in one transaction / EIP-161 empty-touch / reverted-destroy blocks with real bytecode run on Shanghai, Cancun and Prague under controlled schedules against stock revm (outcomes, bundle statuses and reverts, every readable value), and every recorded read is validated against the rule.",
                design_ref="DESIGN.md 6 (C08)", note="forks before Shanghai are not exercised; " + SCHED_NOTE, technique=SCHED_TECH),
    "C09": dict(category="exploration",
                text="Blocks that deploy by create transaction and then call and extend the new contract (Shanghai, Cancun), and EIP-7702 blocks that set a delegation and call through it, inspect the account's code (EXTCODESIZE / EXTCODEHASH / BALANCE), re-point, clear and set it again with storage probes through the facade, with several authorities, a repeated authority and invalid authorisations (Prague, Osaka), run on 2-3 workers under controlled schedules and on the sequential path against stock revm; every recorded run is validated against Grevm.tla (generic multi-version read / validation rules applied to the Code and Basic locations).",
                design_ref="DESIGN.md 6 (C09), 9", note="no dedicated model of code versions (stated in DESIGN.md 9); oracle: stock revm",
                technique="controlled scheduler runs on EIP-7702 / deployment blocks against stock revm + TLC trace validation against Grevm.tla"),
    "C11": dict(category="model_checking",
                text="The scenario driver of all scheduler checks is a capability-restricted precompile: every storage and balance access of those blocks goes through the facade and appears in the trace with the version it resolved, so C01/C02's model checking and trace validation apply to facade accesses as to opcode accesses; in addition direct, nested, static and reverting call shapes, the sequential path and database faults under facade reads (persistent / fail-once at every key) are run against stock revm with the same adapter installed.",
                design_ref="DESIGN.md 6 (C11)", note=SCHED_NOTE, technique=SCHED_TECH),
    "C12": dict(category="exploration",
                text="rules/Delegated.tla states the guard as a rule over call shapes (frame result, transaction kind, nonce advance, inner call flag) and TLC checks its consequences (exactness, nonce protection) and enumerates all 48 cases (6 shapes x CREATE/CREATE2 x guard on/off x Prague/Cancun); every case is realised with real bytecode and a delegation designator and run on the parallel (controlled schedules) and sequential path: where the rule says 'as stock' the block must equal stock revm bit for bit (outcomes, bundle), where it says halt the rule's observables are checked, including the validity of the delegated account's own later transaction.",
                design_ref="DESIGN.md 6 (C12), 9", note="'everything else identical to stock revm' is bounded by the enumerated shapes",
                technique="TLC case generation from a TLA+ rule specification + realisation on the real engine against stock revm / the rule"),
    "C13": dict(category="exploration",
                text="rules/Delegated.tla states the reserve rule (final balance < min(balance before the first protected debit, saturating sum of the maximum costs of the account's own later transactions) => charged top-level revert) and its consequence (an account fundable at block start is never skipped for lack of funds) as an ASSUME over all enumerated cases; TLC enumerates 72 cases (balance x amount x later transactions x policy) with verdict, validity of every later transaction and final balance; each is realised with an EIP-7702 delegated account and run on the parallel path under controlled schedules and on the sequential path, which must agree with each other and with the rule.",
                design_ref="DESIGN.md 6 (C13), 9", note="debits by CALL value only; CREATE endowment, SELFDESTRUCT, credits before debits and inner reverts are not in the enumerated family",
                technique="TLC case generation from a TLA+ rule specification + realisation on the real engine, path agreement"),
    "C07": dict(category="model_checking",
                text="Beneficiary.tla (per-transaction history entries replaced by incarnation, readers scanning backwards one entry at a time, checked-add fold oldest-first, validation of the whole origin chain, incarnation-guarded record / invalidate) is model-checked on six scripts for: a read that passes the decisive validation equals the in-order credits, and the newest incarnation always wins; the production BeneficiaryHistory is driven by three writers and a reader through preemption-bounded schedules, every run validated against the specification; blocks with zero tips, mixed prices, the beneficiary as recipient / sender / reader, an absent beneficiary and a near-overflow balance run through the real scheduler against stock revm.",
                design_ref="DESIGN.md 6 (C07)", note="history scripts of spec/beneficiary_scripts.json; fee families of spec/grevm_blocks.json (f_*); per-fork price rule exercised on Shanghai only",
                technique="TLC model checking of Beneficiary.tla + controlled interleavings of the production history validated against the spec + scheduler scenarios against stock revm"),
    "C10": dict(category="model_checking",
                text="Concurrent clause: Cache.tla (reader fill steps lookup / known-check / fetch / insert interleaved with commit's status change, storage removal and slot update) is model-checked for 'what the cache serves afterwards = what a sequential state serves' (the repaired protocol holds, the pinned one is refuted: finding F1), and destroy/probe blocks run through the real scheduler under schedules that interleave the CACHE hook points with every readable value compared with revm State. Sequential clause: thousands of histories of real transactions (create, destroy, re-create, empty-touch, storage churn), increments, drains, merges (both retention modes) and extractions (take_bundle / parallel_take_bundle, empty / pre-populated bundle, three forks) are applied to a ParallelState and to a revm State and results, transitions, readable values and bundles are compared after every step.",
                design_ref="DESIGN.md 6 (C10), 7", note="oracle = revm State through its Database interface; one account / two slots / two readers in Cache.tla",
                technique="TLC model checking of Cache.tla + controlled scheduler runs at CACHE hook points + history differential ParallelState vs revm State"),
    "C14": dict(category="model_checking",
                text="RunOnce.tla (2-3 callers, atomic election, one application of the block) is model-checked exhaustively for at-most-once, exactly-one-winner and untouched-before; 2-3 real threads race execute / parallel_execute / fallback_sequential on one scheduler of a state-changing block under the controller (schedules enumerated depth-first within a preemption bound, parallel and sequential path), exactly one call may succeed, the others must return the only-once error, outcomes and bundle must equal a single in-order run, and every recorded race is validated against the specification.",
                design_ref="DESIGN.md 6 (C14)", note="2-transaction block; the elected run itself is not re-interleaved here (C01)",
                technique="TLC model checking of RunOnce.tla + controlled entry-point races validated against the spec"),
    "C15": dict(category="model_checking",
                text="Cursor.tla (claim_before load/CAS loop, fetch_min rewind, frontier publish/advance/helping reader, rewind timestamps; one action per atomic operation) is model-checked exhaustively on six scripts for: no claim at or beyond the limit read, every rewound index re-offered, frontier never passes an unexecuted transaction and catches up; the production functions are driven through all schedules within a preemption bound plus random ones and every run is validated against the specification. The finality-timestamp clause is decided in Grevm.tla (FinalityFresh).",
                design_ref="DESIGN.md 6 (C15)", note="sequentially consistent memory only: weak-memory reorderings are not explored (stated in the evidence)",
                technique="TLC model checking of Cursor.tla + controlled interleavings of the production cursor functions validated against the spec"),
    "C16": dict(category="model_checking",
                text="TxDep.tla (next/add/remove/commit/key_tx, one action per lock region and per cursor operation, with the scheduler's caller contract and a commit thread) is model-checked for: no orphan (the stuck state is unreachable), one claimer per release, no premature release through a stale reverse edge, termination under fairness; the production TxDependency is driven by probe workers through preemption-bounded and PCT schedules and every run is validated against the specification.",
                design_ref="DESIGN.md 6 (C16)", note="caller contract as modelled; sequentially consistent memory; scripts of spec/txdep_scripts.json",
                technique="TLC model checking of TxDep.tla + controlled interleavings of the production TxDependency validated against the spec"),
    "C17": dict(
        category="model_checking",
        text="WaitSlot.tla (one waiter, publishing and spurious notifiers, park without timeout) is model-checked exhaustively for the lost-wake-up invariant, deadlock and liveness; the production WaitSlot is then driven through every interleaving (depth-first, preemption-bounded for the larger configurations) of the coordinator protocol under the step controller, a deadlock of that run being a lost wake-up, and every recorded run is validated as a behaviour of the specification with its invariants evaluated per event.",
        design_ref="DESIGN.md section 6 (C17), 5.2, 5.3",
        note="std park/unpark token semantics; sequentially consistent memory; schedule points at the hook sites only; scheduler-level producers (validate, finality loop, cancel) are covered through the C05 scheduler runs",
        technique="TLC model checking of WaitSlot.tla + exhaustive controlled interleavings of the production WaitSlot validated against the spec (trace validation)",
    ),
}

# ---- refinements of the claim texts after the checks were extended (kept separate so the table above stays readable)
CONF = (" A recorded run that the specification cannot explain (trace rejected) is reported as a violation of the property: the code has left the design on which the property is established.")
CLAIMS["C03"]["text"] += " The family also has a sender at the maximum nonce (NonceTooLow against it, nonce overflow), a block in which a rejected speculative attempt is followed on the same worker by a transaction touching the same account, and a driver call with a wrong nonce whose body writes (badnonce programs of Grevm.tla); a vacuity guard requires the in-order outcomes of each block to mix skipped and executed transactions." + CONF
CLAIMS["C04"]["text"] += " The enumeration includes a block whose invalid transaction at the commit head forces the sequential replay of the suffix after a committed prefix (a fault further down must carry its block index), and the coverage goal 'every predecessor is committed while the failing attempt is still running' of Grevm.tla is reached by TLC and its schedule replayed on the code. The design rule of finding F4 (a failing attempt at the commit head ran with the nonce check off, so with nonce checking on the suffix is revalidated in order) is part of Grevm.tla (guard GNonceReplay, programs marked badnonce); its counterexample is replayed on the code." + CONF
CLAIMS["C06"]["text"] += " Blocks whose outcome is an error (persistent faults, also below an invalid transaction that forces the replay of the suffix) are part of the matrix; the stale-failure counterexample and coverage-goal schedules of Grevm.tla are replayed and validated." + CONF
CLAIMS["C07"]["text"] += " Scheduler runs with the history hooks on are validated against Grevm.tla including the rule that an attempt which read any estimate leaves an ESTIMATE in the history (HE_Record rule of GrevmTrace.tla)." + CONF
LIFE = (" rules/Lifecycle.tla gives, for every sequence of up to four transactions (self-destruct, funding, CREATE2 re-creation, slot stores, touch) on one account with three database images and two fork regimes (16800 cases), what every later transaction must observe; TLC checks the rule's consequences (deleted storage never reappears, a created account has only its own storage) and each case is applied transaction by transaction to revm State (must equal the rule) and to ParallelState (must equal both).")
CLAIMS["C08"]["text"] += " The same blocks run forced-sequential and through the configuration matrix (the committed cache serves the sequential path)." + LIFE + CONF
CLAIMS["C08"]["note"] = "pre-Shanghai forks are exercised only by the deployment blocks of C09; " + SCHED_NOTE
CLAIMS["C09"]["text"] += " Deployment onto a pre-funded code-less address with zero value (only the code of the account changes) runs on Frontier, Homestead, Spurious Dragon and Berlin." + CONF
CLAIMS["C10"]["text"] += " Histories include detaching the reverts of the held bundle between blocks (take_all_reverts) and re-creation of a destroyed address that still has storage in the database; an error returned by the state object is compared like any other value." + LIFE + CONF
CLAIMS["C11"]["text"] += " Implementations that swallow a facade error and answer with a milder halt, or ignore it altogether, are run with a fault at every key against the well-behaved twin program as reference (the facade's fault must win); the stale-failure counterexample and the coverage goal 'commit during a failing attempt' of Grevm.tla are replayed on the code." + CONF
CLAIMS["C12"]["text"] = ("rules/Delegated.tla states the guard as a rule over call paths: the transaction calls a delegated EOA or an ordinary contract directly, or through one CALL / DELEGATECALL / CALLCODE / STATICCALL hop, or is a create transaction; the frame's CONTEXT account decides (CALL / STATICCALL: the callee, DELEGATECALL / CALLCODE: the caller). TLC checks the rule's consequences (exactness, nonce protection) and enumerates all 304 cases (19 paths x CREATE/CREATE2 x guard on/off x Cancun/Prague/Osaka/Amsterdam). Every case is one block with real bytecode and designators, run on the parallel path (controlled schedules) and the sequential path: where the rule says the creating frame halts, the run must equal stock revm on the block whose creator code is INVALID (same frame halt, all gas consumed) and the delegated account's own later transaction must be valid; everywhere else the run must equal stock revm on the block itself, bit for bit.")
CLAIMS["C12"]["note"] = "call paths of at most one hop; the halt reason itself is not compared with the substituted block"
CLAIMS["C13"]["text"] = ("rules/Reserve.tla states the reserve as a rule over one transaction's surviving value movements: transaction 0 is sent by an ordinary EOA or by the delegated account itself with top-level value, then a script of one or two movements over two delegated accounts (surviving CALL value, reverted CALL value, credit, SELFDESTRUCT, CREATE endowment) runs, then either account may send its own later transaction. The rule (some delegated account with protected debits ends below min(balance before its first such debit, sum of max costs of its later transactions) => charged top-level revert; the transaction's own top-level value is never a protected debit) is evaluated by TLC on all 8704 cases, its consequences are ASSUMEd over all of them (fundable at block start => never skipped for funds; inert without later transactions or without protected debits; not vacuous), and each case is written with verdict, kinds of the later transactions, final balances and nonces. Each realised case is a block with generated bytecode run on the parallel path under controlled schedules and on the sequential path: where the rule says the policy is inert the block must equal stock revm AND the rule's observables (which binds the rule model to the EVM); where it fires the rule's observables decide and both paths must agree. The one-debit family of rules/Delegated.tla part 2 (72 cases) is kept.")
CLAIMS["C13"]["note"] = "scripts of at most two movements; quick tier realises one case per stratum (sender, operations, policy, verdict, later kinds), the thorough tier all"
CLAIMS["C15"]["text"] = CLAIMS["C15"]["text"].replace(" The finality-timestamp clause is decided in Grevm.tla (FinalityFresh).", "") + " The finality-timestamp clause (a validation that predates a covering rewind never makes its transaction eligible) is decided at scheduler level: FinalityFresh of Grevm.tla (guards GTsBeforeScan / GFinTs / GFinCarry / GRewindNew), and real scheduler runs on 2-3 workers validated against the specification with the timestamp taken before the scan and the own and carried rewind timestamps of every finality decision compared with the specification's." + CONF
CLAIMS["C16"]["text"] += CONF
CLAIMS["C17"]["text"] += " The notifier call sites of the scheduler are covered at scheduler level: the counterexamples of Grevm.tla without each notification (GNotifyFin / GNotifyCom / GNotifyBatch / GNotifyCancel: a parked coordinator nobody wakes) are replayed on the real scheduler, where the controller never fires the stall timer, and scheduler runs on 1-3 workers are validated against the specification." + CONF
CLAIMS["C17"]["note"] = "std park/unpark token semantics; sequentially consistent memory; schedule points at the hook sites only"
for k in ("C01", "C02", "C05", "C14"):
    CLAIMS[k]["text"] += CONF

NOT_YET = "machinery under construction in this round; not yet claimed"


def main():
    props = [json.loads(l)["id"] for l in open(os.path.join(ROOT, "properties.jsonl"))]
    commits = subprocess.run(["git", "-C", "/repo", "log", "--format=%h %s", "63c0247..HEAD"],
                             stdout=subprocess.PIPE, text=True).stdout.splitlines()
    hooks = [c.split()[0] for c in commits if " verif:" in c]
    checks = []
    for p in props:
        if p not in CLAIMS:
            continue
        c = CLAIMS[p]
        checks.append({
            "property_id": p,
            "quick_cmd": f"./check {p} --tier quick",
            "thorough_cmd": f"./check {p} --tier thorough",
            "evidence_file": f"/verif/evidence/{p}.json",
            "replay_cmd_template": "./check replay {path}",
            "engine": "tlc+harness",
            "level_claimed": {"category": c["category"], "text": c["text"], "design_ref": c["design_ref"]},
            "level_note": c["note"],
            "technique": c["technique"],
        })
    m = {
        "version": 1,
        "setup_cmd": "./check setup",
        "hooks": {
            "guard": "--cfg grevm_verif",
            "enable": "rustflags in /verif/harness/.cargo/config.toml: --cfg grevm_verif --check-cfg cfg(grevm_verif); the harness has a path dependency on /repo",
            "baseline_off_cmd": "cd /repo && cargo test --workspace --no-fail-fast --offline",
            "source_commits": hooks,
            "add_only": False,
        },
        "engines": [
            {"name": "tlc+harness", "path": "/verif/check", "serves_properties": sorted(CLAIMS),
             "kind_free_text": "TLA+ specifications under /verif/spec checked with TLC; Rust harness (/verif/harness) drives the real code under a deterministic step controller; recorded traces validated against the specifications"},
        ],
        "checks": checks,
        "not_applicable": [{"property_id": p, "reason": NOT_YET} for p in props if p not in CLAIMS],
        "notes": "see DESIGN.md",
    }
    with open(os.path.join(ROOT, "MANIFEST.json"), "w") as f:
        json.dump(m, f, indent=1)


if __name__ == "__main__":
    main()
