"""C16 - a blocked transaction is always re-offered once its blocker resolves.
TxDep.tla <-> src/tx_dependency.rs (production TxDependency via probes, scheduler caller contract)."""
import json
import os

import tlc
from common import SPEC, ToolError, corrupt_trace

LEVEL = "model_checking"
GUARDS = {g: True for g in ["GLiveCommitted", "GRecheck", "GCommitRelease", "GAddReoffer", "GPastRemove", "GPublishFirst"]}
INVS = ["OneClaimer", "NoOrphan", "BoundedAttempts", "NoPrematureRelease"]
ACTIONS = ["TW_Loop", "DN_Load", "DN_FetchAdd", "DN_Take", "TW_Task", "TW_Exec", "TW_Status", "DR_Begin",
           "DR_Lock", "DX_Load", "DX_Min", "DR_Dep", "DR_End", "DK_Lock", "DX_Committed", "DK_KeyTx",
           "DA_Lock1", "DA_Lock2", "DA_Lock3", "DA_Add", "TC_Poll", "TC_Publish", "DC_Lock", "DC_Commit", "TC_Done"]


def rec(script):
    def att(a):
        if ":" in a:
            k, b = a.split(":")
            return {"k": k, "b": int(b)}
        return {"k": a, "b": -1}
    s = {k: v for k, v in script.items() if k != "name"}
    s["attempts"] = [[att(a) for a in l] for l in s["attempts"]]
    return s


def mc(ctx, scripts, name, guards, expect="ok", simulate=None, liveness=True, timeout=1500):
    mod = ctx.path("TxDepMC.tla")
    tlc.write_module(mod, "TxDepMC", "TxDep", {"MCScripts": "{" + ", ".join(tlc.tla(rec(s)) for s in scripts) + "}"})
    kw = {}
    if simulate:
        kw.update(simulate=simulate, depth=400)
    return ctx.tlc(mod, name, expect=expect, constants=guards, overrides={"Scripts": "MCScripts"},
                   invariants=INVS, properties=["Terminates"] if liveness and not simulate else [],
                   workers=8, timeout=timeout, **kw)


def scheduler_stage(ctx):
    """The caller contract is part of the property: a worker that claims a re-offered predecessor and finds it past
    execution must release its dependents (execution_task's status dispatch -> remove(d, false)). Scheduler runs on
    conflict-heavy blocks with 3 workers, validated against Grevm.tla (W_ExecTask logs the status found; the
    specification then demands the D_Remove step); a stranded transaction is a deadlock verdict."""
    import sched_engine as se
    names = ["rmw4", "rmw3", "dd3", "grow_shrink3"]
    for workers in (3, 2):
        r, out, args = se.controlled(ctx, names, ctx.n(80, 3000), workers=workers, tag=f"sched_w{workers}")
        se.report(ctx, r, args, "C16", also=("C05",))
        se.validate(ctx, r, out, f"sched_trace_w{workers}", workers=workers)


def run(ctx):
    scripts = json.load(open(os.path.join(SPEC, "txdep_scripts.json")))
    by = {s["name"]: s for s in scripts}
    cov = {}
    # 1. design
    if ctx.quick():
        r = mc(ctx, [by["error_behind_boundary"]], "mc_small", GUARDS)
        cov.update(r["coverage"])
        r = mc(ctx, [s for s in scripts if s["name"] != "error_behind_boundary"], "sim_rest", GUARDS, simulate=1500)
        for k, v in r["coverage"].items():
            c = cov.setdefault(k, [0, 0])
            c[0] += v[0]
            c[1] += v[1]
        ctx.notes["model_bounds"] = "quick: 2-tx script exhaustive with liveness; 3-tx scripts by 1500 random behaviours (exhaustive in the thorough tier: 2-11 M distinct states each)"
    else:
        for s in scripts:
            # three probe workers: the exhaustive search does not finish in 50 minutes here (measured): behaviours sampled
            if s["workers"] >= 3:
                r = mc(ctx, [s], "sim_" + s["name"], GUARDS, simulate=max(200, int(20000 * float(os.environ.get("VERIF_THOROUGH_SCALE", "1")))), timeout=2400)
            else:
                r = mc(ctx, [s], "mc_" + s["name"], GUARDS, timeout=3000, liveness=True)
            for k, v in r["coverage"].items():
                c = cov.setdefault(k, [0, 0])
                c[0] += v[0]
                c[1] += v[1]
    missing = [a for a in ACTIONS if cov.get(a, [0, 0])[1] == 0]
    if missing:
        raise ToolError(f"vacuous: TxDep actions never taken: {missing}")
    # 2. guard switches (safety search is breadth-first: shortest lost re-offer)
    small = {"GCommitRelease", "GPublishFirst", "GLiveCommitted"}
    for g in GUARDS:
        gs = dict(GUARDS)
        gs[g] = False
        found = None
        if ctx.quick():
            if g in small:
                r = mc(ctx, [by["error_behind_boundary"]], f"off_{g}", gs, expect="any", liveness=False)
                name = "error_behind_boundary"
            else:
                r = mc(ctx, [by["blocker_replaced"], by["fan_in_invalid_hint"]], f"off_{g}", gs, expect="any",
                       simulate=2500, timeout=120)
                name = "blocker_replaced/fan_in_invalid_hint (random behaviours)"
            if not r["ok"]:
                found = f"{name}: {r['invariant'] or r['violation']}"
        else:
            for s in scripts:
                if s["workers"] >= 3:       # beyond exhaustive search (see above): random behaviours
                    r = mc(ctx, [s], f"off_{g}_{s['name']}", gs, expect="any", simulate=5000, timeout=600)
                else:
                    r = mc(ctx, [s], f"off_{g}_{s['name']}", gs, expect="any", liveness=False, timeout=2400)
                if not r["ok"]:
                    found = f"{s['name']}: {r['invariant'] or r['violation']} at depth {len(r['trace_actions'])}"
                    break
        ctx.guards[g] = ("load-bearing on " + found) if found else "no counterexample on the scripts searched"
        if g in small and not found:
            raise ToolError(f"vacuity: switching {g} off no longer violates anything")
    # 3. production TxDependency under the controller
    out = ctx.path("dep.ndjson")
    args = {"groups": ["SCHED", "DEP", "DEPX", "ATOMIC"], "policy": "dfs", "preemption_bound": 2 if ctx.quick() else 3,
            "max_runs": 1500 if ctx.quick() else 20000, "out": out, "scripts": scripts, "seed": ctx.seed}
    r1 = ctx.vh("dep", args, timeout=3000)
    out2 = ctx.path("dep_rand.ndjson")
    args2 = dict(args, policy="pct", pct_depth=4, pct_len=150, max_runs=400 if ctx.quick() else 8000, out=out2)
    args2.pop("preemption_bound")
    r2 = ctx.vh("dep", args2, timeout=3000)
    jobs = []
    for r, a in ((r1, args), (r2, args2)):
        for s in r["scripts"]:
            ctx.evaluations += s["runs"]
            ctx.distinct += s["distinct_schedules"]
            jobs.append({"script": s["script"]["name"], "policy": a["policy"], "runs": s["runs"],
                         "bounded_exhaustive": s["bounded_exhaustive"], "steps": s["steps"]})
            for v in s["violations"]:
                ctx.violation("dependency probe: " + v["what"],
                              {"kind": "dep_probe", "args": {k: x for k, x in a.items() if k != "scripts"},
                               "script": s["script"], "schedule": v["schedule"], "events": v["events"]})
            if len(ctx.samples) < 2 and s["sample"]:
                smp = s["sample"]
                smp["events"] = smp["events"][:60]
                ctx.samples.append(smp)
    ctx.notes["probe_jobs"] = jobs
    scheduler_stage(ctx)
    consts = dict(GUARDS, Scripts="{}")
    for name, path, r in (("trace_dfs", out, r1), ("trace_pct", out2, r2)):
        if not r["trace_runs"]:
            continue
        ok, where, tres = ctx.validate_trace("TxDepTrace", path, name, consts, invariants=INVS, timeout=900 if ctx.quick() else 5400)
        ctx.trace_verdict(ok, where, tres, "TxDepTrace", path, consts, INVS, "TxDep.tla")
        ctx.traces += r["trace_runs"]
        ctx.trace_events += r["trace_events"]
    if not ctx.violations:
        demo = {}
        for mode, key in (("field", "index"), ("drop", "DX_Min")):
            bad = ctx.path(f"corrupt_{mode}.ndjson")
            what = corrupt_trace(out, bad, mode, ctx.rng, key)
            ok, _, _ = ctx.validate_trace("TxDepTrace", bad, f"corrupt_{mode}", consts, invariants=INVS)
            demo[what] = "rejected" if not ok else "ACCEPTED"
            if ok:
                raise ToolError(f"binding demonstration failed: trace with {what} was accepted")
        ctx.notes["binding_demo"] = demo
    ctx.assumptions += ["sequentially consistent memory (the cursor is Relaxed in the code)",
                        "caller contract of scheduler.rs as modelled in TxDep.tla / the probe; the scheduler's own use is exercised by the scheduler-level runs of C05",
                        "scripts in spec/txdep_scripts.json (2-3 transactions, 2-3 workers + commit thread)"]
