"""C13 - the delegated-balance reserve keeps an account's later transactions fundable."""
import scen
import sched_engine as se
from props.c12 import rule_cases

LEVEL = "exploration"


def run(ctx):
    quick = ctx.quick()
    cases = rule_cases(ctx)
    fam = scen.c13_from_cases(cases["reserve"])
    if quick:
        fam = fam[::2] + fam[1::6]
    ctx.notes["rule_cases"] = len(cases["reserve"])
    ctx.samples.append({"case": fam[0]["case"], "scenario": fam[0]["name"], "expect": fam[0]["expect"]})
    for workers in (1, 2):
        out = ctx.path(f"runs_w{workers}.ndjson")
        args = {"groups": ["SCHED"], "workers": workers, "max_runs": 4 if quick else 200, "seed": ctx.seed, "policy": "pct", "out": out, "scenarios": fam}
        r = ctx.vh("sched", args, timeout=3000)
        se.report(ctx, r, args, "C13", also=("C06",))
    ctx.rule = ("cases = (balance, amount moved out by delegated execution, maximum costs of the account's own later transactions, policy on/off) enumerated by "
                "TLC from rules/Delegated.tla (72) with the rule's verdict (charged revert or not), the validity of every later own transaction and the final "
                "balance; each realised with an EIP-7702 delegated account and run on the parallel path under controlled schedules and on the sequential path, "
                "which must agree with each other and with the rule")
    ctx.assumptions += ["value moved by CALL from the delegated account's context; CREATE endowment, SELFDESTRUCT, credits before debits and inner reverts are not in the enumerated family",
                        "the rule's consequence (an account fundable at block start is never skipped) is checked in the model by an ASSUME over all cases"]
