"""C12 - the delegated-CREATE guard halts exactly delegated-context creates, nothing else."""
import json
import os
import re

import scen
import sched_engine as se
import tlc
from common import SPEC, ToolError

LEVEL = "exploration"


def rule_cases(ctx):
    cfg = ctx.path("delegated.cfg")
    tlc.write_cfg(cfg, init="Init", next_="Next", deadlock=False)
    r = tlc.run(os.path.join(SPEC, "rules", "Delegated.tla"), cfg, workers=1, timeout=300, coverage=False, tag=f"{ctx.prop}_rules")
    ctx.tlc_runs.append({"name": "rules", "module": "rules/Delegated", "states": r["states"], "wall_s": r["wall_s"], "ok": r["ok"], "violation": r["violation"], "invariant": None})
    if not r["ok"]:
        raise ToolError("rules/Delegated.tla: an ASSUME (rule consequence) fails or TLC failed\n" + tlc.tail(r, 20))
    m = re.search(r'<<"CASES", "(.*)">>', r["out"])
    if not m:
        raise ToolError("rules/Delegated.tla printed no cases")
    return json.loads(m.group(1).replace('\\"', '"'))


def run(ctx):
    quick = ctx.quick()
    cases = rule_cases(ctx)
    fam = scen.c12_from_cases(cases["create"])
    ctx.notes["rule_cases"] = len(cases["create"])
    ctx.samples.append({"case": cases["create"][0], "scenario": fam[0]["name"], "expect": fam[0].get("expect")})
    for workers in (1, 2):
        out = ctx.path(f"runs_w{workers}.ndjson")
        args = {"groups": ["SCHED"], "workers": workers, "max_runs": ctx.n(10, 200), "seed": ctx.seed, "policy": "pct", "out": out, "scenarios": fam}
        r = se.sharded(ctx, args, 4 if quick else 12, timeout=6000)
        se.report(ctx, r, args, "C12", also=("C01", "C02", "C03", "C06"))
    args = {"groups": ["SCHED"], "workers": 1, "max_runs": 2, "seed": ctx.seed, "out": ctx.path("seq.ndjson"), "scenarios": fam, "force_sequential": True}
    r = ctx.vh("sched", args, timeout=3000)
    se.report(ctx, r, args, "C12", also=("C01", "C06"))
    ctx.rule = ("cases = call paths (direct, or one CALL / DELEGATECALL / CALLCODE / STATICCALL hop between delegated EOAs and ordinary contracts, or a create "
                "transaction) x {CREATE, CREATE2} x guard on/off x {Cancun, Prague, Osaka, Amsterdam}, enumerated by TLC from rules/Delegated.tla "
                f"({len(cases['create'])} cases, one block each, real bytecode and designators). The rule decides per case whether the creating frame's CONTEXT account "
                "carries a designator; where it says 'halts' the run must equal stock revm on the block whose creator code is INVALID (same frame halt, all gas "
                "consumed) and the delegated account's own later transaction must be valid; everywhere else the run must equal stock revm on the block itself")
    ctx.assumptions += ["call paths of at most one hop; deeper nesting composes the same context rule",
                        "the halt reason itself (NotActivated) is not compared with the substituted block (InvalidFEOpcode); kind, gas, logs, output and state are"]
