"""C05 - every execution terminates: no deadlock, lost wake-up, stall or stranded thread."""
import sched_engine as se
from common import ToolError

LEVEL = "model_checking"


def run(ctx):
    quick = ctx.quick()
    # 1. design: deadlock freedom on every block explored; liveness (<>Terminated under per-thread weak
    #    fairness, no stall timer in the model) on the small ones
    se.mc(ctx, ["tiny2"], "mc_tiny2", liveness=not quick, invariants=["TypeOK"], tlc_workers=12, timeout=3000)
    if quick:
        se.mc(ctx, ["stale_fatal2", "fatal_in_order2", "invalid_then_valid3", "rmw3"], "sim", simulate=300, depth=800,
              invariants=["TypeOK"], timeout=400)
    else:
        for n in ("chain2", "stale_fatal2", "fatal_in_order2"):
            se.mc(ctx, [n], "mc_" + n, liveness=True, invariants=["TypeOK"], tlc_workers=12, timeout=3000)
        se.mc(ctx, ["rmw3", "dd3", "invalid_then_valid3", "grow_shrink3"], "sim", simulate=20000, depth=900,
              invariants=["TypeOK"], timeout=2400)
    # 2. guards whose loss strands a thread: counterexample (deadlock) replayed on the code
    pairs = [("GNotifyFin", "tiny2"), ("GNotifyCom", "tiny2"), ("GNotifyBatch", "chain2"), ("GNotifyCancel", "fatal_in_order2"),
             ("GCommitRelease", "fatal_in_order2"), ("GKeyLive", "fatal_in_order2")]
    for g, b in pairs:
        w = se.witness(ctx, g, b, invariants=("TypeOK",), regenerate=not quick)
        ctx.guards[g] = (f"load-bearing on {b}: {w['invariant']} at depth {w['depth']}" if w["found"]
                         else f"no counterexample on {b}")
        res = se.replay_witness(ctx, w, "C05", extra_runs=ctx.n(4, 30))
        if res:
            ctx.notes.setdefault("witness_replays", {})[g] = [s["guided"][:2] for s in res[0]["scenarios"]]
    # 3. the code under the controller: park has no timeout there, so a lost wake-up / lost re-offer is
    #    a detected deadlock; includes error, fallback and panic paths
    names = ["chain2", "rmw3", "dd3", "stale_fatal2", "fatal_in_order2", "grow_shrink3"]
    for workers in (1, 2, 3):
        r, out, args = se.controlled(ctx, names, (ctx.n(40, 1500)), workers=workers, tag=f"w{workers}")
        se.report(ctx, r, args, "C05")
        if workers == 2:
            se.validate(ctx, r, out, "trace_w2")
    # the error parking protocol (key_tx against the commit of the predecessor) at the grain of the dependency
    # graph's own hook points: a transaction parked behind a boundary that has already passed is stranded
    r, out, args = se.controlled(ctx, ["stale_fatal2", "invalid_stale2", "stale_fatal2_nocheck", "invalid_mid_fault4"], ctx.n(400, 6000),
                                 workers=2, groups=("SCHED", "DEP", "DEPX"), tag="dep_grain")
    se.report(ctx, r, args, "C05")
    bs = se.blocks()
    scn = []
    for n in ("chain2", "rmw3"):
        b = bs[n]
        for key in b["locs"] + ["e0", "e1", "h", "pc"]:
            s = dict(b)
            s["name"] = f"{n}@{key}:panic"
            s["fault"] = {"key": key, "mode": "panic"}
            scn.append(s)
    args = {"groups": ["SCHED"], "workers": 2, "max_runs": ctx.n(15, 300), "seed": ctx.seed, "policy": "pct",
            "out": ctx.path("panic.ndjson"), "scenarios": scn}
    r = ctx.vh("sched", args, timeout=3000)
    se.report(ctx, r, args, "C05")
    ctx.notes["panic_points"] = len(scn)
    ctx.assumptions += ["under the controller the stall timers never fire: a deadlock verdict means no thread can run, an idle verdict means every runnable thread polled without any state change",
                        "liveness is checked on the bounded model (2 transactions exhaustively) and as absence of deadlock on the explored schedules of the code"]
