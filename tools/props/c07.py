"""C07 - fee-recipient accounting is exact, deferred or immediate."""
import json
import os

import sched_engine as se
import tlc
from common import SPEC, ToolError, corrupt_trace

LEVEL = "model_checking"
G = ["GWholeChain", "GRecordGuard", "GInvalidateGuard", "GOldestFirst"]
INVS = ["ValidatedReadExact", "NewestWins"]


def conv(s):
    return {"anchor": s["anchor"], "ops": [[{"op": o[0], "inc": o[1], "k": o[2], "v": o[3]} if o[0] == "rec"
                                            else {"op": "inv", "inc": o[1], "k": "est", "v": 0} for o in w]
                                           for w in s["ops"]]}


def run(ctx):
    quick = ctx.quick()
    scripts = json.load(open(os.path.join(SPEC, "beneficiary_scripts.json")))
    mod = ctx.path("BeneficiaryMC.tla")
    tlc.write_module(mod, "BeneficiaryMC", "Beneficiary", {"MCScripts": "{" + ", ".join(tlc.tla(conv(s)) for s in scripts) + "}"})
    # 1. the history protocol: non-atomic backward scan vs. concurrent record / invalidate
    res = ctx.tlc(mod, "mc", constants={g: True for g in G}, overrides={"Scripts": "MCScripts"}, invariants=INVS, deadlock=False)
    ctx.require_coverage(res, ["HE_Record", "HE_Invalidate", "HE_Snapshot"])
    for g in G:
        c = {x: (x != g) for x in G}
        r = ctx.tlc(mod, "off_" + g, expect="any", constants=c, overrides={"Scripts": "MCScripts"}, invariants=INVS, deadlock=False)
        ctx.guards[g] = ("load-bearing: " + str(r["invariant"])) if not r["ok"] else "redundant at these bounds"
        if r["ok"]:
            raise ToolError(f"vacuity: switching {g} off no longer violates anything")
    # 2. the production BeneficiaryHistory under the controller, every run validated
    for s in scripts:
        s["near_max"] = s["name"] == "overflow_order"
    out = ctx.path("hist.ndjson")
    args = {"groups": ["HIST"], "policy": "dfs", "preemption_bound": ctx.n(3, 5), "max_runs": ctx.n(250, 20000),
            "out": out, "scripts": scripts, "seed": ctx.seed}
    r = ctx.vh("hist", args, timeout=3000)
    for s in r["scripts"]:
        ctx.evaluations += s["runs"]
        ctx.distinct += s["distinct_schedules"]
        ctx.notes.setdefault("probe_jobs", []).append({"script": s["script"]["name"], "runs": s["runs"], "bounded_exhaustive": s["bounded_exhaustive"]})
        for v in s["violations"]:
            ctx.violation("beneficiary history probe: " + v["what"],
                          {"kind": "hist_probe", "args": {k: a for k, a in args.items() if k != "scripts"}, "script": s["script"],
                           "schedule": v["schedule"], "events": v["events"]})
        if len(ctx.samples) < 1 and s["sample"]:
            ctx.samples.append(s["sample"])
    consts = {g: True for g in G}
    consts["Scripts"] = "{}"
    if r["trace_runs"]:
        ok, where, tres = ctx.validate_trace("BeneficiaryTrace", out, "trace", consts, invariants=INVS)
        ctx.trace_verdict(ok, where, tres, "BeneficiaryTrace", out, consts, INVS, "Beneficiary.tla")
        ctx.traces += r["trace_runs"]
        ctx.trace_events += r["trace_events"]
        if not ctx.violations:
            bad = ctx.path("corrupt.ndjson")
            what = corrupt_trace(out, bad, "field", ctx.rng, "inc")
            ok, _, _ = ctx.validate_trace("BeneficiaryTrace", bad, "corrupt", consts, invariants=INVS)
            ctx.notes["binding_demo"] = {what: "rejected" if not ok else "ACCEPTED"}
            if ok:
                raise ToolError("binding demonstration failed")
    # 3. through the scheduler: fee settings and beneficiary roles on real transactions vs stock revm
    names = [n for n in se.blocks() if n.startswith("f_")]
    if names:
        for workers in (1, 2):
            rr, out2, a2 = se.controlled(ctx, names, ctx.n(40, 2000), workers=workers, tag=f"fees_w{workers}")
            se.report(ctx, rr, a2, "C07", also=("C01", "C02"))
    # the two publication sites must agree: an attempt that read an estimate (multi-version memory OR history) leaves an
    # ESTIMATE in the history, exactly as its writes are published with the estimate flag. Scheduler runs with the history
    # hooks on, validated against Grevm.tla (HE_Record rule of GrevmTrace.tla)
    hist_names = ["f_ben_reader", "rmw3", "dd3", "grow_shrink3"]
    for workers in (2, 3):
        rr, out3, a3 = se.controlled(ctx, hist_names, ctx.n(40, 2000), workers=workers, groups=("SCHED", "HIST"), tag=f"hist_w{workers}")
        se.report(ctx, rr, a3, "C07", also=("C01", "C02"))
        se.validate(ctx, rr, out3, f"trace_hist_w{workers}", workers=workers)
    ctx.assumptions += ["history scripts of spec/beneficiary_scripts.json (3 writers, 1 reader); the decisive validation runs after the predecessors published their last incarnation (as finality requires)",
                        "balances near U256::MAX realise the model's saturation bound for the overflow-order script"]
