"""C09 - in-block code changes (CREATE, EIP-7702 set / re-point / clear) reach later transactions."""
import sched_engine as se
import scen

LEVEL = "exploration"


def run(ctx):
    quick = ctx.quick()
    fam = scen.c09_family()
    for workers in (2, 3) if not quick else (2,):
        out = ctx.path(f"runs_w{workers}.ndjson")
        args = {"groups": ["SCHED"], "workers": workers, "max_runs": ctx.n(25, 1500), "seed": ctx.seed, "policy": "pct",
                "out": out, "scenarios": fam}
        r = ctx.vh("sched", args, timeout=3000)
        se.report(ctx, r, args, "C09", also=("C01", "C02", "C03"))
        se.validate(ctx, r, out, f"trace_w{workers}", workers=workers)
    r, out, args = None, None, None
    args = {"groups": ["SCHED"], "workers": 1, "max_runs": 2, "seed": ctx.seed, "out": ctx.path("seq.ndjson"), "scenarios": fam,
            "force_sequential": True}
    r = ctx.vh("sched", args, timeout=3000)
    se.report(ctx, r, args, "C09", also=("C01",))
    ctx.notes["scenarios"] = [f["name"] for f in fam]
    ctx.rule = ("one case = (block, thread schedule); blocks: deployment by create transaction then calls (Shanghai, Cancun); EIP-7702 set + call, "
                "code inspection (EXTCODESIZE / EXTCODEHASH / BALANCE), re-point, clear, set again with storage probes through the facade (Prague, Osaka); "
                "several authorities, a repeated authority and invalid authorisations in one list; schedules PCT / random under the controller")
    ctx.assumptions += ["Code(a) / Basic(a) versioning is exercised through the generic multi-version read and validation rules of Grevm.tla (every recorded run is validated); a dedicated model of code versions is not part of the specification",
                        "oracle: stock revm in order"]
