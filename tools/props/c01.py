"""C01 - parallel execution equals in-order revm execution (outcomes and bundle)."""
import sched_engine as se
from common import ToolError

LEVEL = "model_checking"


def run(ctx):
    quick = ctx.quick()
    se.mc(ctx, ["tiny2"], "mc_tiny2", tlc_workers=12)
    if quick:
        se.mc(ctx, ["rmw3", "dd3", "grow_shrink3", "invalid_then_valid3"], "sim3", simulate=200, depth=800, timeout=400)
    else:
        for n in ("chain2", "rmw2"):
            se.mc(ctx, [n], "mc_" + n, tlc_workers=12, timeout=3000)
        # three workers: exhaustive search of even a 2-transaction block does not finish in 40 minutes here (measured); behaviours sampled
        se.mc(ctx, ["tiny2", "chain2", "rmw3", "dd3"], "sim_w3", workers=3, simulate=10000, depth=900, timeout=2400)
        se.mc(ctx, ["rmw3", "dd3", "grow_shrink3", "invalid_then_valid3"], "sim3", simulate=20000, depth=900, timeout=2400)
    for g, b in (("GRewindNew", "chain2"), ("GValStorage", "chain2"), ("GStrictBefore", "rmw2")):
        w = se.witness(ctx, g, b, regenerate=not quick)
        ctx.guards[g] = (f"load-bearing on {b}: {w['invariant']} at depth {w['depth']}" if w["found"] else f"no counterexample on {b}")
        res = se.replay_witness(ctx, w, "C01", also=("C02",), extra_runs=ctx.n(4, 30))
    names = ["chain2", "rmw2", "rmw3", "dd3", "grow_shrink3", "stale_fatal2"]
    for workers in (1, 2, 3):
        r, out, args = se.controlled(ctx, names, ctx.n(50, 3000), workers=workers, tag=f"w{workers}")
        se.report(ctx, r, args, "C01", also=("C03",))
        se.validate(ctx, r, out, f"trace_w{workers}", workers=max(workers, 1))
    # forced sequential and threshold paths give the same observable
    r, out, args = se.controlled(ctx, names, 3, extra={"force_sequential": True}, tag="seq")
    se.report(ctx, r, args, "C01")
    se.validate(ctx, r, out, "trace_seq")
    ctx.assumptions += ["blocks of spec/grevm_blocks.json realised through a custom precompile (storage reads/writes, data-dependent branches, fatal errors); opcode-level fidelity is delegated to stock revm as the oracle",
                        "bundle comparison: post-state, original values, statuses, contracts, reverts and size accounting"]
    ctx.notes["not_covered"] = "creates, self-destructs, EIP-7702 and fee-setting families are exercised by C07-C09 scenarios, not here"
