"""C11 - custom precompiles via the state facade match in-order execution, no residue."""
import sched_engine as se
import scen

LEVEL = "model_checking"


def run(ctx):
    quick = ctx.quick()
    # the scenario driver of C01-C05 IS a capability-restricted precompile: every storage access of
    # those blocks goes through the facade. Here: the model on the read-modify-write blocks, and the
    # call shapes (direct, nested, static, reverting), faults, the sequential path.
    se.mc(ctx, ["rmw2"] if not quick else ["tiny2"], "mc", tlc_workers=12, timeout=3000)
    if quick:
        se.mc(ctx, ["rmw3", "dd3"], "sim3", simulate=200, depth=800, timeout=400)
    fam = scen.c11_family()
    bs = se.blocks()
    names = ["rmw2", "rmw3", "dd3", "grow_shrink3", "f_ben_reader", "stale_fatal2", "swallow3", "ignore3"]
    for workers in (1, 2, 3):
        r, out, args = se.controlled(ctx, names, ctx.n(20, 2500), workers=workers, tag=f"w{workers}")
        se.report(ctx, r, args, "C11", also=("C01", "C02", "C04"))
        se.validate(ctx, r, out, f"trace_w{workers}", workers=workers)
    # a fatal fault returned by the precompile for a stale value must not decide the block: the specification's
    # counterexample (attempt started before its predecessor was committed, finished after) replayed on the code
    w = se.witness(ctx, "GHeadAtStart", "stale_fatal2_nocheck", regenerate=False)
    if w["found"]:
        se.replay_witness(ctx, w, "C11", also=("C01", "C04"), extra_runs=ctx.n(6, 40))
    for b in ("stale_fatal2_nocheck", "stale_fatal2", "invalid_stale2"):
        g = se.goal(ctx, "CommitDuringFailedAttempt", b)
        ctx.guards[f"goal CommitDuringFailedAttempt on {b}"] = f"reached at depth {g['depth']}" if g["found"] else "not reachable"
        if g["found"]:
            se.replay_witness(ctx, g, "C11", also=("C01", "C04"), extra_runs=ctx.n(4, 30))
    r, out, args = se.controlled(ctx, ["stale_fatal2_nocheck", "stale_fatal2", "invalid_stale2"], ctx.n(120, 4000), workers=2, tag="stale")
    se.report(ctx, r, args, "C11", also=("C01", "C02", "C04"))
    se.validate(ctx, r, out, "trace_stale", workers=2)
    out = ctx.path("shapes.ndjson")
    args = {"groups": ["SCHED"], "workers": 2, "max_runs": ctx.n(40, 2000), "seed": ctx.seed, "policy": "pct", "out": out, "scenarios": fam}
    r = ctx.vh("sched", args, timeout=3000)
    se.report(ctx, r, args, "C11", also=("C01", "C02"))
    se.validate(ctx, r, out, "trace_shapes")
    args = dict(args, force_sequential=True, max_runs=2, out=ctx.path("shapes_seq.ndjson"))
    r = ctx.vh("sched", args, timeout=3000)
    se.report(ctx, r, args, "C11", also=("C01",))
    # facade faults: a database failure under a facade read must take effect
    scn = []
    # (swallow3 / ignore3: implementations that answer a facade error with a milder halt of their own, or ignore it;
    #  the reference runs the well-behaved twin, so the facade's fault must win in the real run)
    for n in ("rmw2", "rmw3", "swallow3", "ignore3"):
        for key in bs[n]["locs"] + ["h"]:
            for mode in ("persistent", "once"):
                s = dict(bs[n])
                s["name"] = f"{n}@{key}:{mode}"
                s["fault"] = {"key": key, "mode": mode}
                scn.append(s)
    args = {"groups": ["SCHED"], "workers": 2, "max_runs": ctx.n(8, 400), "seed": ctx.seed, "policy": "pct", "out": ctx.path("faults.ndjson"), "scenarios": scn}
    r = ctx.vh("sched", args, timeout=3000)
    se.report(ctx, r, args, "C11", also=("C04",))
    ctx.assumptions += ["in Grevm.tla a facade access is an ordinary read / write of the multi-version rules (that is the claim); the trace of every run shows each facade access with the version it resolved",
                        "gas charged once is decided by outcome equality with stock revm (same adapter installed)"]
