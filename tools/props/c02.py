"""C02 - commits are in order, exactly once, final, and equal the in-order effect."""
import sched_engine as se
from common import ToolError

LEVEL = "model_checking"
ACTIONS = ["W_ValClaim", "W_ValLock", "D_Next", "W_ExecTask", "E_Begin", "WStep", "E_Done", "D_Add",
           "D_Remove", "X_Publish", "T_Rewind1", "T_Rewind2", "E_End", "V_Begin", "V_Ts", "T_Unconf",
           "V_End", "V_Notify", "N_Notify", "F_Loop", "F_ValLoad", "F_Lock", "F_Decide", "F_Publish", "N_ParkFin",
           "C_Loop", "C_FinLoad", "C_Take", "C_Apply", "C_Publish", "D_Commit", "N_ParkCom", "M_Start", "M_Join"]
# guards whose loss lets a stale speculative result reach commit, with the smallest block that shows it
WITNESS = [("GRewindNew", "chain2"), ("GValStorage", "chain2"), ("GFinTs", "rmw3"), ("GTsBeforeScan", "rmw3"),
           ("GValVersion", "rmw3"), ("GValEst", "rmw3"), ("GFinCarry", "rmw3"), ("GStrictBefore", "rmw2")]


def run(ctx):
    quick = ctx.quick()
    # 1. the design
    res = se.mc(ctx, ["tiny2"], "mc_tiny2", liveness=not quick, tlc_workers=12)
    ctx.require_coverage(res, ACTIONS)
    if quick:
        se.mc(ctx, ["rmw3", "dd3", "grow_shrink3"], "sim3", simulate=400, depth=700, timeout=400)
        ctx.notes["model_bounds"] = ("quick: tiny2 exhaustive with liveness; 3-transaction blocks by 400 random behaviours; "
                                     "thorough: every 2-transaction block exhaustive, 3-transaction blocks by 20000 behaviours")
    else:
        for n in ("chain2", "rmw2", "stale_fatal2", "fatal_in_order2"):
            se.mc(ctx, [n], "mc_" + n, timeout=2400, tlc_workers=12)
        se.mc(ctx, ["rmw3", "dd3", "grow_shrink3", "invalid_then_valid3"], "sim3", simulate=20000, depth=800, timeout=2400)
    # 2. guards: losing one must break a property in the model (non-vacuity); quick tier: two cheap ones
    for g, b in (WITNESS[:2] if quick else WITNESS):
        # 3-transaction blocks are beyond exhaustive search (measured: no result in 40 minutes): random behaviours
        big = b.endswith("3")
        r = se.mc(ctx, [b], f"off_{g}", off=(g,), expect="any", timeout=300 if quick else (1200 if big else 2400),
                  simulate=20000 if big else None, depth=900 if big else None,
                  invariants=["CommitMatchesRef", "CommittedReadsFresh", "FinalOk", "FinalityFresh"])
        ctx.guards[g] = (f"load-bearing on {b}: {r['invariant'] or r['violation']} at depth {len(r['trace_actions'])}"
                         if not r["ok"] else f"no counterexample on {b}")
        if quick and r["ok"]:
            raise ToolError(f"vacuity: switching {g} off no longer violates anything on {b}")
    # 3. the code: controlled runs, every commit compared with the in-order reference, traces validated
    names = ["chain2", "rmw2", "rmw3", "dd3", "grow_shrink3"]
    r, out, args = se.controlled(ctx, names, ctx.n(120, 4000))
    se.report(ctx, r, args, "C02")
    se.validate(ctx, r, out, "trace")
    r3, out3, args3 = se.controlled(ctx, ["rmw3", "dd3"], ctx.n(60, 1500), workers=3, tag="runs_w3")
    se.report(ctx, r3, args3, "C02")
    se.validate(ctx, r3, out3, "trace_w3", workers=3)
    if not ctx.violations:
        se.binding_demo(ctx, out)
    ctx.assumptions += ["transaction programs of spec/grevm_blocks.json (2-3 transactions over 1-3 storage slots), realised through a custom precompile",
                        "one thread runs at a time, switching only at SCHED hook points; sequentially consistent memory",
                        "in-order oracle: stock revm with the same precompile adapter"]
