"""C06 - results do not depend on worker count, thresholds, sequential mode or timing."""
import json

import scen
import sched_engine as se
from props.c12 import rule_cases

LEVEL = "exploration"


def run(ctx):
    quick = ctx.quick()
    cases = rule_cases(ctx)
    bs = se.blocks()
    fam = [bs[n] for n in ("rmw3", "dd3", "stale_fatal2", "fatal_in_order2", "t_nonce_gap_dup", "t_funds_made_good", "f_mixed_price")]
    fam += scen.c12_from_cases(cases["create"])[:4] + scen.c13_from_cases(cases["reserve"])[5::9]
    fam += scen.c08_family(("SHANGHAI",))[:2] + scen.c09_family()[2:3]
    out = ctx.path("matrix.json")
    args = {"scenarios": fam, "seed": ctx.seed, "repeat": 2 if quick else 6, "out": out}
    r = ctx.vh("matrix", args, timeout=3000)
    ctx.evaluations += r["runs"]
    ctx.distinct += r["configs"] * len(fam)
    ctx.samples.append(r["sample"])
    for v in r["violations"]:
        ctx.violation("C06: " + v["what"], {"kind": "matrix", "scenario": v["scenario"], "configs": v["configs"]})
    # controlled schedules: the observable of one block must not depend on the interleaving either
    for workers in (1, 2, 3):
        rr, o, a = se.controlled(ctx, ["rmw3", "dd3", "t_nonce_gap_dup"], 25 if quick else 1500, workers=workers, tag=f"w{workers}")
        se.report(ctx, rr, a, "C06", also=("C01", "C03"))
    ctx.rule = ("one case = (block, configuration): workers 1/2/3/8, min_parallel_txs 0 / n / n+1, force_sequential, entry point execute / "
                "fallback_sequential, repeated runs; the observable (success or failing index, every outcome, the bundle) must be identical across all "
                "configurations of a block; blocks include policy-enabled ones (rule cases of rules/Delegated.tla) for which stock revm is no oracle")
    ctx.assumptions += ["uncontrolled real-thread runs for the configuration matrix (timing varies by OS scheduling), controlled schedules for the interleaving part"]
