"""C06 - results do not depend on worker count, thresholds, sequential mode or timing."""
import json

import scen
import sched_engine as se
from props.c12 import rule_cases

LEVEL = "exploration"


def run(ctx):
    quick = ctx.quick()
    cases = rule_cases(ctx)
    bs = se.blocks()
    fam = [bs[n] for n in ("rmw3", "dd3", "stale_fatal2", "fatal_in_order2", "t_nonce_gap_dup", "t_funds_made_good", "f_mixed_price")]
    fam += scen.c12_from_cases(cases["create"])[:4] + scen.c13_from_cases(cases["reserve"])[5::9]
    fam += scen.c08_family(("SHANGHAI",))[:2] + scen.c09_family()[2:3]
    # blocks whose outcome is an error: the failing index and the prefix must not depend on the configuration either
    for n, key in (("invalid_mid_fault4", "z"), ("invalid_mid_fault4", "x"), ("rmw3", "x"), ("stale_fatal2", "e1"), ("invalid_then_valid3", "y")):
        s = dict(bs[n])
        s["name"] = f"{n}@{key}:persistent"
        s["fault"] = {"key": key, "mode": "persistent"}
        fam.append(s)
    out = ctx.path("matrix.json")
    args = {"scenarios": fam, "seed": ctx.seed, "repeat": ctx.n(2, 6), "out": out}
    r = ctx.vh("matrix", args, timeout=3000)
    ctx.evaluations += r["runs"]
    ctx.distinct += r["configs"] * len(fam)
    ctx.samples.append(r["sample"])
    for v in r["violations"]:
        ctx.violation("C06: " + v["what"], {"kind": "matrix", "scenario": next((f for f in fam if f["name"] == v["scenario"]), v["scenario"]), "configs": v["configs"]})
    # controlled schedules: the observable of one block must not depend on the interleaving either
    for workers in (1, 2, 3):
        rr, o, a = se.controlled(ctx, ["rmw3", "dd3", "t_nonce_gap_dup"], ctx.n(25, 1500), workers=workers, tag=f"w{workers}")
        se.report(ctx, rr, a, "C06", also=("C01", "C03"))
    # a failure seen only by a stale attempt must not decide the block under any timing: the specification's
    # counterexample for the guard (attempt started before its predecessor committed) replayed on the code
    w = se.witness(ctx, "GHeadAtStart", "stale_fatal2_nocheck", regenerate=False)
    if w["found"]:
        se.replay_witness(ctx, w, "C06", also=("C01", "C04"), extra_runs=ctx.n(6, 40))
    for b in ("stale_fatal2_nocheck", "stale_fatal2", "invalid_stale2"):
        g = se.goal(ctx, "CommitDuringFailedAttempt", b)
        ctx.guards[f"goal CommitDuringFailedAttempt on {b}"] = f"reached at depth {g['depth']}" if g["found"] else "not reachable"
        if g["found"]:
            se.replay_witness(ctx, g, "C06", also=("C01", "C04"), extra_runs=ctx.n(4, 30))
    rr, o, a = se.controlled(ctx, ["stale_fatal2_nocheck", "stale_fatal2", "invalid_stale2", "invalid_mid_fault4"], ctx.n(100, 4000), workers=2, tag="err_w2")
    se.report(ctx, rr, a, "C06", also=("C01", "C03", "C04"))
    se.validate(ctx, rr, o, "trace_err_w2")
    ctx.rule = ("one case = (block, configuration): workers 1/2/3/8, min_parallel_txs 0 / n / n+1, force_sequential, entry point execute / "
                "fallback_sequential, repeated runs; the observable (success or failing index, every outcome, the bundle) must be identical across all "
                "configurations of a block; blocks include policy-enabled ones (rule cases of rules/Delegated.tla) for which stock revm is no oracle")
    ctx.assumptions += ["uncontrolled real-thread runs for the configuration matrix (timing varies by OS scheduling), controlled schedules for the interleaving part"]
