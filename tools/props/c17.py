"""C17 - coordinator notifications are never lost (WaitSlot.tla <-> src/scheduler/wait.rs)."""
import json
import os

from common import ToolError, corrupt_trace

LEVEL = "model_checking"
CONSTS = {"Notifiers": '{"n1", "n2"}', "Spurious": '{"s1"}', "GPublishFirst": True,
          "GSecondCheck": True, "GRegisterFirst": True, "GToken": True}
INVS = ["TypeOK", "NoLostWakeup", "TokenImpliesRegistered"]
ACTIONS = ["N_Register", "W_LoopRead", "W_Check", "N_Yield", "N_Sleep", "N_Park", "P_Publish", "N_Notify"]


def scheduler_stage(ctx):
    """The notifier call sites (scheduler.rs: validation end, finality publish and batch end, commit publish, abort)
    are part of the property: a waiter's condition must never become true without a notification that reaches it.
    Grevm.tla guards GNotifyFin / GNotifyCom / GNotifyBatch / GNotifyCancel: each counterexample (a parked coordinator
    nobody wakes: deadlock, the model has no stall timer) is replayed on the real scheduler, where the controller never
    fires the stall timer either; every recorded run is validated against the specification."""
    import sched_engine as se
    quick = ctx.quick()
    for g, b in (("GNotifyFin", "tiny2"), ("GNotifyCom", "tiny2"), ("GNotifyBatch", "chain2"), ("GNotifyCancel", "fatal_in_order2")):
        w = se.witness(ctx, g, b, invariants=("TypeOK",), regenerate=False)
        ctx.guards[g] = (f"load-bearing on {b}: {w['invariant']} at depth {w['depth']}" if w["found"] else f"no counterexample on {b}")
        if not w["found"]:
            raise ToolError(f"vacuity: without {g} no coordinator is stranded on {b}")
        se.replay_witness(ctx, w, "C17", also=("C05",), extra_runs=ctx.n(4, 30))
    names = ["chain2", "rmw3", "dd3", "fatal_in_order2", "stale_fatal2", "grow_shrink3"]
    for workers in (1, 2, 3):
        r, out, args = se.controlled(ctx, names, ctx.n(25, 1500), workers=workers, tag=f"sched_w{workers}")
        se.report(ctx, r, args, "C17", also=("C05",))
        se.validate(ctx, r, out, f"sched_trace_w{workers}", workers=workers)


def run(ctx):
    # 1. the design: exhaustive safety + liveness, no stall timer in the model
    res = ctx.tlc("WaitSlot", "mc", constants=CONSTS, invariants=INVS,
                  properties=["EventuallyReturns", "CondLeadsToDone"], deadlock=True)
    ctx.require_coverage(res, ACTIONS)
    # 2. guard switches: which guards are load-bearing in the model (non-vacuity of the invariants)
    for guard, expect in (("GPublishFirst", True), ("GToken", True), ("GSecondCheck", False),
                          ("GRegisterFirst", False)):
        c = dict(CONSTS)
        c[guard] = False
        r = ctx.tlc("WaitSlot", "off_" + guard, expect="any", constants=c, invariants=INVS,
                    properties=["EventuallyReturns"], deadlock=True)
        ctx.guards[guard] = "load-bearing: " + str(r["violation"]) if not r["ok"] else "redundant at these bounds"
        if expect and r["ok"]:
            raise ToolError(f"vacuity: switching {guard} off no longer violates anything")
    c = dict(CONSTS)
    c["GSecondCheck"] = False
    c["GRegisterFirst"] = False
    r = ctx.tlc("WaitSlot", "off_both", expect="any", constants=c, invariants=INVS, deadlock=True)
    ctx.guards["GSecondCheck+GRegisterFirst"] = "load-bearing: " + str(r["violation"]) if not r["ok"] else "redundant"

    # 3. the code: every interleaving of the production WaitSlot with its callers' protocol
    jobs = [dict(notifiers=1, spurious=0, max_runs=200000)]
    if ctx.quick():
        jobs.append(dict(notifiers=1, spurious=1, max_runs=20000, preemption_bound=3))
        jobs.append(dict(notifiers=2, spurious=1, max_runs=1500, preemption_bound=2))
    else:
        jobs.append(dict(notifiers=1, spurious=1, max_runs=400000))
        jobs.append(dict(notifiers=2, spurious=0, max_runs=100000, preemption_bound=4))
        jobs.append(dict(notifiers=2, spurious=1, max_runs=60000, preemption_bound=3))
    all_exhaustive = True
    first_trace = None
    for k, job in enumerate(jobs):
        out = ctx.path(f"wait_{k}.ndjson")
        args = dict(job, groups=["SCHED", "WAIT"], policy="dfs", out=out, seed=ctx.seed)
        r = ctx.vh("wait", args)
        ctx.evaluations += r["runs"]
        ctx.distinct += r["distinct_schedules"]
        all_exhaustive &= bool(r["exhaustive"])
        ctx.notes.setdefault("probe_jobs", []).append(
            {k2: r[k2] for k2 in ("runs", "exhaustive", "bounded_exhaustive", "distinct_schedules", "steps")}
            | {"config": job})
        if r["sample"] and len(ctx.samples) < 2:
            ctx.samples.append(r["sample"])
        for v in r["violations"]:
            ctx.violation("lost wake-up in WaitSlot probe: " + v["what"],
                          {"kind": "wait_probe", "args": args, "schedule": v["schedule"],
                           "events": v["events"], "verdict": v["verdict"]})
        if r["trace_runs"]:
            ok, where, tres = ctx.validate_trace("WaitSlotTrace", out, f"trace_{k}", CONSTS,
                                                 invariants=INVS + ["RunsEndReturned"])
            ctx.trace_verdict(ok, where, tres, "WaitSlotTrace", out, CONSTS, INVS + ["RunsEndReturned"], "WaitSlot.tla")
            ctx.traces += r["trace_runs"]
            ctx.trace_events += r["trace_events"]
            first_trace = first_trace or out
    ctx.exhaustive = all_exhaustive

    # 4. binding demonstration: a corrupted copy of a recorded trace must be rejected
    if first_trace and not ctx.violations:
        demo = {}
        for mode, key in (("field", "registered"), ("drop", "N_Park")):
            bad = ctx.path(f"corrupt_{mode}.ndjson")
            what = corrupt_trace(first_trace, bad, mode, ctx.rng, key)
            ok, where, _ = ctx.validate_trace("WaitSlotTrace", bad, f"corrupt_{mode}", CONSTS, invariants=INVS)
            demo[what] = "rejected" if not ok else "ACCEPTED"
            if ok:
                raise ToolError(f"binding demonstration failed: trace with {what} was accepted")
        ctx.notes["binding_demo"] = demo
    scheduler_stage(ctx)
    ctx.assumptions += [
        "std::thread park/unpark token semantics (modelled by GToken); the stall timer never fires under the controller",
        "sequentially consistent memory; the production WaitSlot is driven by harness threads that follow the coordinator protocol of scheduler.rs",
    ]
