"""C14 - a scheduler executes its block at most once."""
import sched_engine as se
from common import ToolError, corrupt_trace

LEVEL = "model_checking"
INVS = ["AtMostOnce", "OneWinner", "ExactlyOnce", "UntouchedBefore"]


def run(ctx):
    quick = ctx.quick()
    consts = {"Callers": '{"m0", "m1", "m2"}', "Entry": '"x"', "GCas": True}
    res = ctx.tlc("RunOnce", "mc", constants=consts, invariants=INVS, properties=["Terminates"])
    ctx.require_coverage(res, ["M_RunOnce", "M_Run", "M_Return"])
    r = ctx.tlc("RunOnce", "off_GCas", expect="any", constants=dict(consts, GCas=False), invariants=INVS)
    ctx.guards["GCas"] = ("load-bearing: " + str(r["invariant"])) if not r["ok"] else "redundant"
    if r["ok"]:
        raise ToolError("vacuity: a non-atomic election no longer violates anything")
    bs = se.blocks()
    combos = [["execute", "execute"], ["execute", "fallback_sequential"], ["fallback_sequential", "parallel_execute", "execute"]]
    if not quick:
        combos += [["execute", "execute", "execute"], ["fallback_sequential", "fallback_sequential"], ["parallel_execute", "execute"]]
    first = None
    for k, entries in enumerate(combos):
        for seq in (False, True):
            out = ctx.path(f"entry_{k}_{int(seq)}.ndjson")
            args = {"groups": ["ENTRY", "SCHED"], "policy": "dfs", "preemption_bound": 1, "max_runs": ctx.n(150, 4000),
                    "out": out, "scenario": bs["chain2"], "entries": entries, "workers": 1, "force_sequential": seq,
                    "seed": ctx.seed}
            r = ctx.vh("entry", args, timeout=3000)
            ctx.evaluations += r["runs"]
            ctx.distinct += r["distinct_schedules"]
            ctx.notes.setdefault("probe_jobs", []).append({"entries": entries, "force_sequential": seq, "runs": r["runs"],
                                                           "bounded_exhaustive": r["bounded_exhaustive"]})
            for v in r["violations"]:
                ctx.violation("entry-point race: " + v["what"], {"kind": "entry_probe", "args": args, "schedule": v["schedule"], "events": v["events"]})
            if r["sample"] and len(ctx.samples) < 2:
                ctx.samples.append(r["sample"])
            if r["trace_runs"]:
                ok, where, tres = ctx.validate_trace("RunOnceTrace", out, f"trace_{k}_{int(seq)}", consts, invariants=INVS)
                ctx.trace_verdict(ok, where, tres, "RunOnceTrace", out, consts, INVS, "RunOnce.tla")
                ctx.traces += r["trace_runs"]
                ctx.trace_events += r["trace_events"]
                first = first or out
    if first and not ctx.violations:
        bad = ctx.path("corrupt.ndjson")
        what = corrupt_trace(first, bad, "field", ctx.rng, "won")
        ok, _, _ = ctx.validate_trace("RunOnceTrace", bad, "corrupt", consts, invariants=INVS)
        ctx.notes["binding_demo"] = {what: "rejected" if not ok else "ACCEPTED"}
        if ok:
            raise ToolError("binding demonstration failed")
    ctx.assumptions += ["2-3 racing callers over execute / parallel_execute / fallback_sequential on a state-changing 2-transaction block, parallel and sequential path; the election is interleaved at its compare-exchange, the elected run itself is not re-interleaved here (C01)"]
