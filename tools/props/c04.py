"""C04 - errors are faithful and leave an exact committed prefix."""
import sched_engine as se
from common import ToolError

LEVEL = "fault_enumeration"


def fault_scenarios(names, modes):
    bs = se.blocks()
    out = []
    for n in names:
        b = bs[n]
        for key in b["locs"] + [f"e{i}" for i in range(b["n"])] + ["h", "pc", "ben"]:
            for mode in modes:
                s = dict(b)
                s["name"] = f"{n}@{key}:{mode}"
                s["fault"] = {"key": key, "mode": mode}
                out.append(s)
    return out


def run(ctx):
    quick = ctx.quick()
    # 1. design: a failure observed only by a stale attempt is never reported; an in-order failure is
    #    reported with the exact prefix (FinalOk of Grevm.tla on the error templates)
    se.mc(ctx, ["stale_fatal2_nocheck"], "mc_stale_fatal2_nocheck", tlc_workers=12)
    if not quick:
        se.mc(ctx, ["stale_fatal2"], "mc_stale_fatal2", tlc_workers=12, timeout=2400)
    if not quick:
        se.mc(ctx, ["fatal_in_order2"], "mc_fatal_in_order2", tlc_workers=12, timeout=2400)
        se.mc(ctx, ["invalid_then_valid3"], "sim_invalid3", simulate=5000, depth=800, timeout=1800)
    #    a transaction whose nonce is wrong in block order is skipped in order, whatever its body would do
    se.mc(ctx, ["badnonce_fatal2"], "mc_badnonce_fatal2", tlc_workers=8, timeout=1500)
    # 2. the guards of findings F2 (fixed by ff2cdcb) and F4 (fixed by 32e7315): their loss is a counterexample, replayed on the code
    for g, b in (("GHeadAtStart", "stale_fatal2_nocheck"), ("GHeadOnly", "stale_fatal2_nocheck"), ("GNonceReplay", "badnonce_fatal2")):
        w = se.witness(ctx, g, b, regenerate=not quick)
        ctx.guards[g] = (f"load-bearing on {b}: {w['invariant']} at depth {w['depth']}" if w["found"]
                         else f"no counterexample on {b}")
        if not w["found"]:
            raise ToolError(f"vacuity: switching {g} off no longer violates anything on {b}")
        res = se.replay_witness(ctx, w, "C04", extra_runs=ctx.n(6, 40))
        if res:
            ctx.notes.setdefault("witness_replays", {})[g] = [s["guided"][:3] for s in res[0]["scenarios"]]
    for b in ("stale_fatal2_nocheck", "stale_fatal2", "invalid_stale2"):
        g = se.goal(ctx, "CommitDuringFailedAttempt", b, regenerate=not quick)
        ctx.guards[f"goal CommitDuringFailedAttempt on {b}"] = f"reached at depth {g['depth']}" if g["found"] else "not reachable"
        if not g["found"]:
            raise ToolError(f"coverage goal CommitDuringFailedAttempt is not reachable on {b}")
        se.replay_witness(ctx, g, "C04", also=("C01",), extra_runs=ctx.n(4, 30))
    # 3. fault enumeration on the real code: every key the block touches x {persistent, fail-once}
    import json
    # (invalid_mid_fault4: an invalid transaction at the commit head forces the sequential replay of the suffix after a
    #  committed prefix; a fault further down must still be reported with its block index and the exact prefix)
    scn = fault_scenarios(["chain2", "stale_fatal2", "invalid_mid_fault4"] if quick else ["chain2", "rmw3", "dd3", "stale_fatal2", "fatal_in_order2", "grow_shrink3", "invalid_mid_fault4", "invalid_then_valid3"],
                          ["persistent", "once"])
    out = ctx.path("faults.ndjson")
    args = {"groups": ["SCHED"], "workers": 2, "max_runs": ctx.n(25, 400), "seed": ctx.seed, "policy": "pct",
            "out": out, "scenarios": scn}
    r = ctx.vh("sched", args, timeout=3000)
    se.report(ctx, r, args, "C04")
    ctx.notes["fault_points"] = len(scn)
    ctx.samples.append({"fault_scenarios": [s["name"] for s in scn][:12]})
    # fault-free and in-order-fatal blocks, all schedules sampled: Ok exactly when in-order is Ok
    r2, out2, args2 = se.controlled(ctx, ["stale_fatal2_nocheck", "stale_fatal2", "fatal_in_order2", "chain2", "rmw3", "badnonce_fatal2", "badnonce_reads3"], ctx.n(150, 5000), tag="plain")
    se.report(ctx, r2, args2, "C04")
    se.validate(ctx, r2, out2, "trace_plain")
    ctx.rule = ("one case = (block, database key, fault mode, thread schedule); keys = every storage slot, sender, the "
                "driver, the holder and the fee recipient of the block; modes = persistent, fail-once; schedules = PCT / random "
                "under the controller; distinct_nontrivial counts pairwise different schedules, evaluations all runs")
    ctx.assumptions += ["faults are injected at the database boundary by key (account or slot), persistent or fail-once; block-hash and code-hash keys are not exercised by these programs",
                        "a persistent fault is judged against in-order execution on the same faulty database (fee recipient loaded first); a fail-once fault may be absorbed or reported with an exact prefix"]
