"""C10 - ParallelState is a faithful stand-in for revm State (bundle, reverts, reads)."""
import sched_engine as se
import tlc
from common import ToolError

LEVEL = "model_checking"
HIST = '''{ <<[k |-> "destroy", slots |-> [s \\in {0, 1} |-> -1]]>>,
  <<[k |-> "change", slots |-> (0 :> 7 @@ 1 :> -1)], [k |-> "destroy", slots |-> [s \\in {0, 1} |-> -1]]>>,
  <<[k |-> "create", slots |-> (0 :> 5 @@ 1 :> -1)]>>,
  <<[k |-> "empty", slots |-> [s \\in {0, 1} |-> -1]], [k |-> "change", slots |-> (0 :> -1 @@ 1 :> 9)]>>,
  <<[k |-> "destroy", slots |-> [s \\in {0, 1} |-> -1]], [k |-> "create", slots |-> (0 :> 3 @@ 1 :> -1)], [k |-> "change", slots |-> (0 :> -1 @@ 1 :> 4)]>>,
  <<[k |-> "change", slots |-> (0 :> 8 @@ 1 :> 2)], [k |-> "create", slots |-> (0 :> -1 @@ 1 :> 6)], [k |-> "destroy", slots |-> [s \\in {0, 1} |-> -1]]>> }'''
INVS = ["ReadsDoNotChangeState", "NoStaleFill"]


def run(ctx):
    quick = ctx.quick()
    # 1. concurrent clause: reader fills racing commit mutations (Cache.tla)
    mod = ctx.path("CacheMC.tla")
    tlc.write_module(mod, "CacheMC", "Cache", {"MCHist": HIST})
    base = {"Readers": '{"r1", "r2"}', "Slots": "{0, 1}", "GStatusFirst": True, "GRecheck": True}
    res = ctx.tlc(mod, "mc", constants=base, overrides={"Histories": "MCHist"}, invariants=INVS, properties=["Terminates"])
    ctx.require_coverage(res, ["CA_StorageRemove", "CA_Account", "CA_Slots", "CS_Known", "CS_Fetch", "CS_Insert"])
    for g in ("GStatusFirst", "GRecheck"):
        r = ctx.tlc(mod, "off_" + g, expect="any", constants=dict(base, **{g: False}), overrides={"Histories": "MCHist"}, invariants=INVS)
        ctx.guards[g] = ("load-bearing: " + str(r["invariant"])) if not r["ok"] else "redundant at these bounds"
        if r["ok"]:
            raise ToolError(f"vacuity: switching {g} off no longer violates anything (finding F1 no longer reproduced in the model)")
    # 2. the code, concurrent: destroy / probe blocks under schedules that interleave the cache steps;
    #    every value readable through the returned state against revm State
    #    (the pre-fix race of finding F1 needs a fetch to straddle the commit of the destroying transaction: first hit
    #     after ~600 PCT schedules with this seed, hence 2000 in the quick tier; 6000 runs take 45 s)
    for nm, nq in (("c_destroy_probe", 2000), ("c_destroy_probe_fallback", 600)):
        r, out, args = se.controlled(ctx, [nm], ctx.n(nq, 20000), groups=("SCHED", "CACHE"), tag="cache_" + nm)
        se.report(ctx, r, args, "C10", also=("C01",))
    r2, out2, args2 = se.controlled(ctx, ["chain2", "rmw3", "dd3", "grow_shrink3", "t_nonce_gap_dup"], ctx.n(60, 3000),
                                    groups=("SCHED", "CACHE"), tag="cache_plain")
    se.report(ctx, r2, args2, "C10")
    # 3. the code, sequential: the same history of real transactions (create, destroy, re-create,
    #    empty-touch, storage churn), increments, drains, merges and extractions applied to a
    #    ParallelState and to a revm State; results, transitions, readable values, bundles compared
    se.lifecycle(ctx, "C10", quick)
    h = ctx.vh("statehist", {"max_runs": ctx.n(1500, 60000), "seed": ctx.seed}, timeout=3000)
    ctx.evaluations += h["runs"]
    ctx.distinct += h["distinct"]
    ctx.notes["history_step_kinds"] = h["step_kinds"]
    ctx.samples.append(h["sample"])
    for v in h["violations"]:
        ctx.violation(f"ParallelState differs from revm State ({v['class']}): {v['what'][:600]}",
                      {"kind": "statehist", "history": v["history"], "spec": v["spec"], "prepopulated": v["prepopulated"],
                       "signature": v["class"]})
    ctx.notes["mismatch_classes"] = h["classes"]
    ctx.rule = ("sequential part: one case = one history (3-8 steps over 8 transaction kinds, balance increments / drains, merges with both "
                "retention modes, extraction by take_bundle or parallel_take_bundle, empty or pre-populated bundle, Shanghai / Cancun / Prague), "
                "all ordered pairs of transaction kinds first, then random ones; distinct_nontrivial = distinct histories. "
                "concurrent part: controlled schedules at CACHE hook points")
    ctx.assumptions += ["oracle: revm_database::State through its Database interface (the one execution reads through); State's DatabaseRef::storage_ref of revm-database 15.0.2 falls through to the backing database for a destroyed account and is not used as oracle",
                        "Cache.tla: one account, two slots, two readers, six commit histories"]
