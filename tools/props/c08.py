"""C08 - in-block account deletion, creation and storage reset are seen correctly."""
import sched_engine as se
import scen
from common import ToolError

LEVEL = "model_checking"


def run(ctx):
    quick = ctx.quick()
    # 1. design: reset marker vs slot versions in the multi-version read rule, through the whole
    #    pipeline (estimates, validation, finality, commit)
    if quick:
        se.mc(ctx, ["m_destroy_probe2", "m_create_storage_probe2", "m_destroy_recreate_probe3"], "sim", simulate=300, depth=800, timeout=500)
        ctx.notes["model_bounds"] = "quick: 300 random behaviours over the three reset blocks; thorough: the 2-transaction blocks exhaustively (2.7 M and 4.4 M distinct states)"
    else:
        for n in ("m_destroy_probe2", "m_create_storage_probe2"):
            se.mc(ctx, [n], "mc_" + n, tlc_workers=12, timeout=3000)
        se.mc(ctx, ["m_destroy_recreate_probe3"], "sim3", simulate=20000, depth=900, timeout=2400)
    for g, b in (("GResetMasks", "m_destroy_probe2"), ("GCreatedWins", "m_create_storage_probe2")):
        w = se.witness(ctx, g, b, regenerate=not quick, timeout=3000)
        ctx.guards[g] = (f"load-bearing on {b}: {w['invariant']} at depth {w['depth']}" if w["found"] else f"no counterexample on {b}")
        if not w["found"]:
            raise ToolError(f"vacuity: switching {g} off no longer violates anything on {b}")
    # 2. the code: destroy / create / re-create / empty-touch / reverted-destroy blocks on three forks,
    #    real bytecode, against stock revm (outcomes, bundle statuses and reverts, every readable value)
    fam = scen.c08_family(("SHANGHAI", "CANCUN") if quick else ("SHANGHAI", "CANCUN", "PRAGUE"))
    bs = se.blocks()
    fam += [bs["c_destroy_probe"], bs["c_destroy_probe_fallback"]]
    for workers in (2, 3) if not quick else (2,):
        out = ctx.path(f"runs_w{workers}.ndjson")
        args = {"groups": ["SCHED"], "workers": workers, "max_runs": ctx.n(12, 600), "seed": ctx.seed, "policy": "pct",
                "out": out, "scenarios": fam}
        r = ctx.vh("sched", args, timeout=3000)
        se.report(ctx, r, args, "C08", also=("C01", "C02", "C10"))
        se.validate(ctx, r, out, f"trace_w{workers}", workers=workers)
    # the sequential path and the sequential replay read the committed cache directly (no multi-version memory):
    # the same blocks forced sequential, and through the configuration matrix (fallback entry, thresholds)
    args = {"groups": ["SCHED"], "workers": 1, "max_runs": 2, "seed": ctx.seed, "out": ctx.path("seq.ndjson"), "scenarios": fam, "force_sequential": True}
    r = ctx.vh("sched", args, timeout=3000)
    se.report(ctx, r, args, "C08", also=("C01", "C02", "C10"))
    r = ctx.vh("matrix", {"scenarios": fam, "repeat": ctx.n(1, 5)}, timeout=3000)
    for v in r.get("violations", []):
        ctx.violation("C06: " + v["what"], {"kind": "matrix", "scenario": next((f for f in fam if f["name"] == v["scenario"]), v["scenario"]), "configs": v["configs"]})
    ctx.evaluations += r.get("runs", 0)
    # the committed cache serves the sequential path and the sequential replay: the same destroy / create / re-create
    # histories as single transactions against ParallelState and revm State side by side (readable values after every step)
    h = ctx.vh("statehist", {"max_runs": ctx.n(400, 20000), "seed": ctx.seed}, timeout=3000)
    ctx.evaluations += h["runs"]
    for v in h["violations"]:
        ctx.violation(f"the committed cache differs from revm State ({v['class']}): {v['what']}",
                      {"kind": "statehist", "history": v["history"], "spec": v["spec"], "prepopulated": v["prepopulated"]})
    # the life cycle of one account as a rule (rules/Lifecycle.tla): all operation sequences up to length 4 on three
    # database images and two fork regimes
    se.lifecycle(ctx, "C08", quick)
    ctx.notes["scenarios"] = [f["name"] for f in fam]
    ctx.assumptions += ["forks Shanghai, Cancun (and Prague in the thorough tier); Frontier..Berlin rule sets are not exercised (PUSH0-free bytecode would be needed)",
                        "the reset-marker rule of Grevm.tla is validated on every recorded read (version, masking, value)"]
