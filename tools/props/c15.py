"""C15 - validation cursors never lose a pending validation or pass an unexecuted tx.
Cursor.tla <-> src/scheduler/cursor.rs, src/scheduler/context.rs (production functions via probes)."""
import json
import os

import tlc
from common import SPEC, ToolError, corrupt_trace

LEVEL = "model_checking"
GUARDS = {"GCas": True, "GFetchMin": True, "GReload": True, "GFetchMax": True}
INVS = ["FrontierSound", "ClaimBelowLimit", "NoLostRewind", "FrontierCatchesUp", "RewoundAllReoffered"]
TRACE_INVS = ["FrontierSound", "ClaimBelowLimit", "NoLostRewind", "FrontierCatchesUp"]
ACTIONS = ["XF_CurLoad", "XF_CurExec", "XF_CurReload", "XF_AdvExec", "XF_AdvMax", "VC_Load", "VC_Cas",
           "XF_PubLoad1", "XF_PubStore", "XF_PubLoad2", "T_Clock", "T_Lower", "VC_Rewind", "D_Start"]


def mc(ctx, scripts, name, guards, expect="ok", properties=("Terminates",)):
    mod = ctx.path("CursorMC.tla")
    tlc.write_module(mod, "CursorMC", "Cursor",
                     {"MCScripts": "{" + ", ".join(tlc.tla({k: v for k, v in s.items() if k != "name"})
                                                   for s in scripts) + "}"})
    return ctx.tlc(mod, name, expect=expect, constants=guards, overrides={"Scripts": "MCScripts"},
                   invariants=INVS, properties=list(properties), workers=6, timeout=900)


def scheduler_stage(ctx):
    """The clause 'a validation result that predates a rewind covering it can never make its transaction eligible for
    finality' needs the transaction locks, timestamps and the finality loop: Grevm.tla (invariant FinalityFresh, guards
    GTsBeforeScan / GFinTs / GFinCarry / GRewindNew / GRewindConflict) and the real scheduler under the controller."""
    import sched_engine as se
    quick = ctx.quick()
    if quick:
        se.mc(ctx, ["chain2", "rmw3", "grow_shrink3"], "sched_sim", simulate=250, depth=800, timeout=400,
              invariants=["TypeOK", "FinalityFresh", "CommittedReadsFresh", "CommitMatchesRef"])
    else:
        se.mc(ctx, ["chain2"], "sched_mc_chain2", invariants=["TypeOK", "FinalityFresh", "CommittedReadsFresh", "CommitMatchesRef"], tlc_workers=12, timeout=3000)
        se.mc(ctx, ["rmw3", "grow_shrink3", "dd3"], "sched_sim", simulate=20000, depth=900, timeout=2400,
              invariants=["TypeOK", "FinalityFresh", "CommittedReadsFresh", "CommitMatchesRef"])
    w = se.witness(ctx, "GRewindNew", "chain2", regenerate=False)
    ctx.guards["GRewindNew"] = (f"load-bearing on chain2: {w['invariant']} at depth {w['depth']}" if w["found"] else "no counterexample on chain2")
    if not w["found"]:
        raise ToolError("vacuity: without the rewind after a write-set expansion nothing is violated on chain2")
    se.replay_witness(ctx, w, "C15", also=("C01", "C02"), extra_runs=ctx.n(4, 30))
    names = ["chain2", "rmw3", "grow_shrink3", "dd3", "invalid_then_valid3"]
    for workers in (2, 3):
        r, out, args = se.controlled(ctx, names, ctx.n(30, 1500), workers=workers, tag=f"sched_w{workers}")
        se.report(ctx, r, args, "C15", also=("C01", "C02"))
        se.validate(ctx, r, out, f"sched_trace_w{workers}", workers=workers)
    ctx.assumptions += ["scheduler level: every recorded run is validated against Grevm.tla with FinalityFresh evaluated after every step: the timestamp taken before the "
                        "read-set scan, the own and the carried rewind timestamp at every finality decision are logged and must equal the specification's"]


def run(ctx):
    scripts = json.load(open(os.path.join(SPEC, "cursor_scripts.json")))
    small = [s for s in scripts if s["name"] != "three_claimers"] if ctx.quick() else scripts
    # 1. design: exhaustive over all scripts at once
    res = mc(ctx, small, "mc", GUARDS)
    ctx.require_coverage(res, ACTIONS)
    # 2. guard switches
    for g in GUARDS:
        gs = dict(GUARDS)
        gs[g] = False
        r = mc(ctx, small, "off_" + g, gs, expect="any", properties=())
        ctx.guards[g] = ("load-bearing: " + str(r["invariant"] or r["violation"])) if not r["ok"] else "redundant at these bounds"
        if r["ok"]:
            raise ToolError(f"vacuity: switching {g} off no longer violates anything")
    # 3. the production functions under the controller: all schedules within a preemption bound
    out = ctx.path("cursor.ndjson")
    args = {"groups": ["CURSOR", "ATOMIC"], "policy": "dfs", "preemption_bound": 2 if ctx.quick() else 3,
            "max_runs": 600 if ctx.quick() else 20000, "out": out, "scripts": scripts, "seed": ctx.seed}
    r = ctx.vh("cursor", args, timeout=3000)
    jobs = []
    for s in r["scripts"]:
        ctx.evaluations += s["runs"]
        ctx.distinct += s["distinct_schedules"]
        jobs.append({"script": s["script"]["name"], "runs": s["runs"],
                     "bounded_exhaustive": s["bounded_exhaustive"], "steps": s["steps"]})
        for v in s["violations"]:
            ctx.violation("cursor probe: " + v["what"],
                          {"kind": "cursor_probe", "args": {k: a for k, a in args.items() if k != "scripts"},
                           "script": s["script"], "schedule": v["schedule"], "events": v["events"]})
        if len(ctx.samples) < 2 and s["sample"]:
            ctx.samples.append(s["sample"])
    # random schedules on top (fine interleavings beyond the preemption bound)
    out2 = ctx.path("cursor_rand.ndjson")
    args2 = dict(args, policy="random", max_runs=150 if ctx.quick() else 3000, out=out2)
    args2.pop("preemption_bound")
    r2 = ctx.vh("cursor", args2, timeout=3000)
    for s in r2["scripts"]:
        ctx.evaluations += s["runs"]
        ctx.distinct += s["distinct_schedules"]
        for v in s["violations"]:
            ctx.violation("cursor probe (random schedule): " + v["what"],
                          {"kind": "cursor_probe", "args": {k: a for k, a in args2.items() if k != "scripts"},
                           "script": s["script"], "schedule": v["schedule"], "events": v["events"]})
    ctx.notes["probe_jobs"] = jobs
    consts = dict(GUARDS, Scripts="{}")
    for name, path, n, ev in (("trace_dfs", out, r["trace_runs"], r["trace_events"]),
                              ("trace_rand", out2, r2["trace_runs"], r2["trace_events"])):
        if not n:
            continue
        ok, where, tres = ctx.validate_trace("CursorTrace", path, name, consts, invariants=TRACE_INVS)
        ctx.trace_verdict(ok, where, tres, "CursorTrace", path, consts, TRACE_INVS, "Cursor.tla")
        ctx.traces += n
        ctx.trace_events += ev
    # 4. binding demonstration
    if not ctx.violations:
        demo = {}
        for mode, key in (("field", "cur"), ("drop", "VC_Cas")):
            bad = ctx.path(f"corrupt_{mode}.ndjson")
            what = corrupt_trace(out, bad, mode, ctx.rng, key)
            ok, _, _ = ctx.validate_trace("CursorTrace", bad, f"corrupt_{mode}", consts, invariants=TRACE_INVS)
            demo[what] = "rejected" if not ok else "ACCEPTED"
            if ok:
                raise ToolError(f"binding demonstration failed: trace with {what} was accepted")
        ctx.notes["binding_demo"] = demo
    scheduler_stage(ctx)
    ctx.notes["not_covered"] = ("weak-memory reorderings permitted by the declared orderings are NOT explored: the model and "
                                "the controller are sequentially consistent.")
    ctx.assumptions += ["sequentially consistent memory", "scripts in spec/cursor_scripts.json (3-4 indices, up to 3 claimers, 2 rewinders, 3 publishers)"]
