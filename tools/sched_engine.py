"""Scheduler-level machinery shared by C01-C05, C11: Grevm.tla model checking, guard witnesses,
controlled runs of the real scheduler with monitors, trace validation against GrevmTrace.tla."""
import json
import os

import tlc
from common import SPEC, ROOT, ToolError, corrupt_trace

GUARDS = ["GStrictBefore", "GEstBlocks", "GValEst", "GValVersion", "GValStorage", "GTsBeforeScan", "GRewindNew",
          "GRewindConflict", "GMarkEstimate", "GRemoveStale", "GFinStatus", "GFinCursor", "GFinTs", "GFinCarry",
          "GCommitOrder", "GHeadOnly", "GNotifyFin", "GNotifyCom", "GNotifyBatch", "GNotifyCancel", "GKeyLive",
          "GCommitRelease", "GFallbackStart", "GHeadAtStart", "GResetMasks", "GCreatedWins", "GNonceReplay"]
SAFETY = ["TypeOK", "CommitMatchesRef", "CommittedIsPrefix", "CommittedReadsFresh", "FinalOk", "FinalityFresh"]
TRACE_INVS = ["TypeOK", "CommittedReadsFresh", "FinalityFresh", "CommitMatchesRef", "FinalOk"]
WITNESS_DIR = os.path.join(SPEC, "witness")


def blocks():
    return {b["name"]: b for b in json.load(open(os.path.join(SPEC, "grevm_blocks.json")))}


def block_tla(b):
    progs = "<<" + ", ".join("<<" + ", ".join(tlc.tla(i) for i in p) + ">>" for p in b["progs"]) + ">>"
    pre = "[" + ", ".join(f"{k} |-> {v}" for k, v in b["pre"].items()) + "]"
    extra = ""
    if "resetOf" in b:
        extra = ", resetOf |-> [" + ", ".join(f'{l} |-> "{b["resetOf"].get(l, "none")}"' for l in b["locs"]) + "]"
    if b.get("disable_nonce_check"):
        extra += ", nonceCheck |-> FALSE"
    return f'[n |-> {b["n"]}, locs |-> {tlc.tla(set(b["locs"]))}, pre |-> {pre}, progs |-> {progs}{extra}]'


def consts(off=(), workers=2, trace=False):
    c = {g: (g not in off) for g in GUARDS}
    c["Workers"] = "{" + ", ".join(f'"w{i}"' for i in range(workers)) + "}"
    c["TraceMode"] = trace
    return c


def mc(ctx, names, tag, off=(), workers=2, invariants=SAFETY, liveness=False, simulate=None, depth=None,
       expect="ok", timeout=1200, tlc_workers=8, dump=None, sketch=None):
    """Model-check Grevm.tla on the named blocks (exhaustively, or `simulate` random behaviours)."""
    bs = blocks()
    mod = ctx.path(f"GrevmMC_{tag}.tla")
    os.makedirs(os.path.dirname(mod), exist_ok=True)
    # the module name must equal the file name
    name = os.path.splitext(os.path.basename(mod))[0]
    defs = {"MCBlocks": "{" + ", ".join(block_tla(bs[n]) for n in names) + "}"}
    kw = {}
    if sketch:
        # a scenario sketch: a state constraint that prunes the search to schedules of one shape (directed search
        # for a counterexample on a block too large to explore exhaustively; never used to claim absence)
        defs["Sketch"] = sketch
        kw["constraints"] = ["Sketch"]
    tlc.write_module(mod, name, "Grevm", defs)
    if simulate:
        if not ctx.quick():
            simulate = max(50, int(simulate * float(os.environ.get("VERIF_THOROUGH_SCALE", "1"))))   # smoke runs only
        kw.update(simulate=simulate, depth=depth or 600)
    if dump:
        kw["dump_trace"] = dump
    return ctx.tlc(mod, tag, expect=expect, constants=consts(off, workers), overrides={"Blocks": "MCBlocks"},
                   invariants=list(invariants), properties=["Terminates"] if liveness else [], deadlock=True,
                   workers=tlc_workers, timeout=timeout, heap="16g", **kw)


def guide_from_dump(path):
    """TLC -dumpTrace json -> [[thread, label, loc|None]] for the counterexample's steps."""
    with open(path) as f:
        d = json.load(f)
    guide = []
    for frm, act, to in d["counterexample"]["action"]:
        a, b = frm[1], to[1]
        moved = [t for t in b["pc"] if b["pc"][t] != a["pc"][t] or b["loc"][t] != a["loc"][t]]
        if not moved:
            continue
        name = act["name"]
        t = "main" if name in ("M_Start", "M_Join", "S_Tx") else moved[0]
        if name == "WStep":   # the location-parametrised worker steps
            la, lb = a["loc"][t], b["loc"][t]
            if lb["rs"] != la["rs"]:
                name = "R_Read"
            elif len(lb["pubd"]) > len(la["pubd"]):
                name = "P_Pub"
            elif len(lb["scan"]) < len(la["scan"]):
                name = "V_Scan"
            elif a["pc"][t] == "p_unpub":
                name = "P_Unpub"
            elif a["pc"][t] in ("p_est_e", "p_est_v"):
                name = "P_Est"
        label = {"D_RemoveNP": "D_Remove", "N_RegisterFin": "N_Register", "N_RegisterCom": "N_Register",
                 "N_ParkFin": "N_Park", "N_ParkCom": "N_Park", "M_Start": "M_Path", "M_Join": "M_Post"}.get(name, name)
        loc = None
        la, lb = a["loc"][t], b["loc"][t]
        if name == "R_Read":
            ch = [x for x in lb["rs"] if lb["rs"][x] != la["rs"][x]]
            loc = ch[0] if ch else None
        elif name == "P_Pub":
            ch = [x for x in lb["pubd"] if x not in la["pubd"]]
            loc = ch[0] if ch else None
        elif name == "V_Scan":
            ch = [x for x in la["scan"] if x not in lb["scan"]]
            loc = ch[0] if ch else None
        elif name in ("P_Est", "P_Unpub"):
            ch = [x for x in la["todo"] if x not in lb["todo"]]
            loc = ch[0] if ch else None
        guide.append([t, label, loc])
    return guide


def witness(ctx, guard, block, invariants=("CommitMatchesRef", "CommittedReadsFresh", "FinalOk", "FinalityFresh"),
            timeout=1500, regenerate=False, workers=2, sketch=None):
    """Counterexample of the specification with `guard` switched off = a schedule in which the guard is
    load-bearing. Cached under spec/witness (it depends on the specification only)."""
    os.makedirs(WITNESS_DIR, exist_ok=True)
    cache = os.path.join(WITNESS_DIR, f"{guard}_{block}.json")
    if os.path.exists(cache) and not regenerate:
        with open(cache) as f:
            return json.load(f)
    dump = ctx.path(f"dump_{guard}_{block}.json")
    r = mc(ctx, [block], f"wit_{guard}_{block}", off=(guard,), invariants=invariants, expect="any", timeout=timeout,
           dump=dump, workers=workers, sketch=sketch)
    w = {"guard": guard, "block": block, "found": not r["ok"], "invariant": r["invariant"] or r["violation"],
         "depth": len(r["trace_actions"]), "distinct_states": r["distinct"], "guide": [], "sketch": sketch}
    if not r["ok"] and os.path.exists(dump):
        w["guide"] = guide_from_dump(dump)
    with open(cache, "w") as f:
        json.dump(w, f)
    return w


def goal(ctx, name, block, timeout=1500, regenerate=False, workers=2):
    """Shortest path of the specification (all guards on) to coverage goal Reach_<name>: a schedule that puts the
    real code into a state ordinary schedules rarely reach. Cached like the guard witnesses."""
    os.makedirs(WITNESS_DIR, exist_ok=True)
    cache = os.path.join(WITNESS_DIR, f"goal_{name}_{block}.json")
    if os.path.exists(cache) and not regenerate:
        with open(cache) as f:
            return json.load(f)
    dump = ctx.path(f"dump_goal_{name}_{block}.json")
    r = mc(ctx, [block], f"goal_{name}_{block}", invariants=(f"NotReach_{name}",), expect="any", timeout=timeout, dump=dump, workers=workers)
    w = {"guard": "goal_" + name, "block": block, "found": not r["ok"], "invariant": r["invariant"] or r["violation"],
         "depth": len(r["trace_actions"]), "distinct_states": r["distinct"], "guide": []}
    if not r["ok"] and os.path.exists(dump):
        w["guide"] = guide_from_dump(dump)
    with open(cache, "w") as f:
        json.dump(w, f)
    return w


def replay_witness(ctx, w, prop, also=(), extra_runs=6, workers=2):
    """Replay a witness schedule on the real code (then continue under PCT); monitors decide."""
    if not w["found"]:
        return None
    r, out, args = controlled(ctx, [w["block"]], extra_runs, workers=workers, policy="guide",
                              extra={"guide": w["guide"]}, tag=f"wit_{w['guard']}_{w['block']}")
    report(ctx, r, args, prop, also)
    # the guided runs are runs of the real code like any other: each must be a behaviour of the specification
    validate(ctx, r, out, f"trace_wit_{w['guard']}_{w['block']}", workers=workers)
    return r, out


def controlled(ctx, names, runs, workers=2, seed=None, policy="pct", extra=None, groups=("SCHED",), tag="runs"):
    """Run the real scheduler on the named scenarios under the controller."""
    bs = blocks()
    out = ctx.path(f"{tag}.ndjson")
    args = {"groups": list(groups), "workers": workers, "max_runs": runs, "seed": seed or ctx.seed, "policy": policy,
            "out": out, "scenarios": [bs[n] for n in names]}
    if extra:
        args.update(extra)
    r = ctx.vh("sched", args, timeout=3000)
    return r, out, args


def report(ctx, r, args, prop, also=()):
    """Turn harness findings into verdicts for `prop` (findings of other properties are noted only)."""
    others = {}
    for v in r.get("violations", []):
        if v["property"] == prop or v["property"] in also:
            ctx.violation(f"{v['property']}: {v['what']}",
                          {"kind": "sched_run", "args": {k: a for k, a in args.items() if k != "scenarios"},
                           "scenario": v["scenario"], "seed": v["seed"], "workers": v["workers"],
                           "schedule": v["schedule"], "events": v["events"]})
        else:
            others[v["property"]] = others.get(v["property"], 0) + 1
    if others:
        ctx.notes["findings_of_other_properties"] = others
    if "fatal" in r:
        f = r["fatal"]
        # a run that cannot make progress never returns a result: every scheduler-level property is void
        ctx.violation(f"C05: the run cannot make progress (execute() would never return): {json.dumps(f['verdict'])}",
                      {"kind": "sched_run", "args": {k: a for k, a in args.items() if k != "scenarios"},
                       "scenario": f["scenario"], "schedule": f["schedule"], "events": f["last_events"],
                       "verdict": f["verdict"]})
    for s in r["scenarios"]:
        ctx.evaluations += s["runs"]
        ctx.distinct += s["distinct_schedules"]
        if len(ctx.samples) < 2 and s.get("sample"):
            ctx.samples.append(s["sample"])


def validate(ctx, r, out, name, workers=2):
    """Every recorded run must be a behaviour of Grevm.tla (trace mode), invariants per record."""
    if not r["trace_runs"]:
        return
    if "fatal" in r:
        # the harness left the process from the fatal handler: the last run is incomplete (and reported by `report`)
        with open(out) as f:
            lines = f.read().splitlines()
        last = max((i for i, l in enumerate(lines) if '"l":"RESET"' in l.replace(" ", "")), default=0)
        with open(out, "w") as f:
            f.write("\n".join(lines[:last]) + ("\n" if last else ""))
        if not last:
            return
    c = consts((), workers, trace=True)
    c["Blocks"] = "{}"
    ok, where, tres = ctx.validate_trace("GrevmTrace", out, name, c, invariants=TRACE_INVS, timeout=1500)
    ctx.trace_verdict(ok, where, tres, "GrevmTrace", out, c, TRACE_INVS, "Grevm.tla")
    ctx.traces += r["trace_runs"]
    ctx.trace_events += r["trace_events"]


def binding_demo(ctx, out, workers=2):
    c = consts((), workers, trace=True)
    c["Blocks"] = "{}"
    demo = {}
    for mode, key in (("field", "ts"), ("drop", "X_Publish")):
        bad = ctx.path(f"corrupt_{mode}.ndjson")
        what = corrupt_trace(out, bad, mode, ctx.rng, key)
        ok, _, _ = ctx.validate_trace("GrevmTrace", bad, f"corrupt_{mode}", c, invariants=TRACE_INVS, timeout=900)
        demo[what] = "rejected" if not ok else "ACCEPTED"
        if ok:
            raise ToolError(f"binding demonstration failed: trace with {what} was accepted")
    ctx.notes["binding_demo"] = demo


def lifecycle(ctx, prop, quick):
    """rules/Lifecycle.tla: TLC checks the rule's consequences and writes every operation sequence with the expected
    observables; each is applied transaction by transaction to revm State (must agree with the rule) and to
    ParallelState (must agree with both)."""
    cfg = ctx.path("lifecycle.cfg")
    out = ctx.path("lifecycle_cases.json")
    tlc.write_cfg(cfg, init="Init", next_="Next", deadlock=False)
    r = tlc.run(os.path.join(SPEC, "rules", "Lifecycle.tla"), cfg, workers=1, timeout=900, coverage=False, tag=f"{ctx.prop}_lifecycle", env={"OUT": out}, heap="6g")
    ctx.tlc_runs.append({"name": "lifecycle_rules", "module": "rules/Lifecycle", "states": r["states"], "wall_s": r["wall_s"], "ok": r["ok"], "violation": r["violation"], "invariant": None})
    if not r["ok"]:
        raise ToolError("rules/Lifecycle.tla: a consequence of the rule (ASSUME) fails or TLC failed\n" + tlc.tail(r, 20))
    h = ctx.vh("lifecycle", {"cases": out, "stride": 5 if quick else 1, "offset": (ctx.seed % 5) if quick else 0}, timeout=3000)
    if h["model_mismatch"]:
        m = h["model_mismatch"][0]
        raise ToolError(f"rules/Lifecycle.tla disagrees with stock revm State: case {json.dumps(m['case'])[:300]} step {m['step']}: revm [{m['revm_state']}] rule [{m['rule']}]")
    ctx.evaluations += h["runs"]
    ctx.notes["lifecycle"] = {"cases": h["cases"], "realised": h["runs"], "transactions": h["steps"]}
    for v in h["violations"]:
        ctx.violation(f"{prop}: {v['what']}", {"kind": "lifecycle", "case": v["case"], "step": v["step"]})
    if len(ctx.samples) < 3:
        ctx.samples.append(h["sample"])


def sharded(ctx, args, shards, timeout=6000):
    """Run one `vh sched` job per shard of the scenario list concurrently (the harness runs one schedule at a time;
    independent blocks can be explored side by side) and merge the results."""
    from concurrent.futures import ThreadPoolExecutor
    scn = args["scenarios"]
    shards = max(1, min(shards, len(scn)))
    parts = [scn[k::shards] for k in range(shards)]
    base, ext = os.path.splitext(args["out"])

    def one(k):
        a = dict(args, scenarios=parts[k], out=f"{base}_{k}{ext}")
        argfile = ctx.path(f"vh_shard_{os.path.basename(base)}_{k}.json")
        with open(argfile, "w") as f:
            json.dump(a, f)
        import subprocess
        from common import VH
        p = subprocess.run([VH, "sched", "@" + argfile], stdout=subprocess.PIPE, stderr=subprocess.PIPE, text=True, timeout=timeout)
        if p.returncode != 0:
            raise ToolError(f"harness sched (shard {k}) failed rc={p.returncode}: {p.stderr[-1500:]}")
        return json.loads(p.stdout.strip().splitlines()[-1])

    with ThreadPoolExecutor(max_workers=shards) as ex:
        rs = list(ex.map(one, range(shards)))
    merged = {"scenarios": [], "violations": [], "trace_runs": 0, "trace_events": 0}
    for r in rs:
        merged["scenarios"] += r["scenarios"]
        merged["violations"] += r["violations"]
        merged["trace_runs"] += r["trace_runs"]
        merged["trace_events"] += r["trace_events"]
        if "fatal" in r and "fatal" not in merged:
            merged["fatal"] = r["fatal"]
    return merged
