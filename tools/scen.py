"""Raw EVM scenario families (hand-assembled bytecode) for C06, C08, C09, C11, C12, C13.

A scenario is JSON understood by the harness (`kind: raw`): named accounts with code / storage /
delegation, transactions with calldata, value, creates and EIP-7702 authorisation lists, a fork and
a delegated-safety policy. Model locations (`locs`) are mapped to (account, slot) by `loc_map` so
that the driver precompile can probe and write them through the facade.
"""
OP = {"STOP": 0x00, "ADD": 0x01, "ISZERO": 0x15, "CALLDATALOAD": 0x35, "CALLDATASIZE": 0x36, "CALLDATACOPY": 0x37,
      "CODECOPY": 0x39, "EXTCODESIZE": 0x3b, "EXTCODEHASH": 0x3f, "BALANCE": 0x31, "SLOAD": 0x54, "SSTORE": 0x55,
      "GAS": 0x5a, "DUP6": 0x85, "CREATE": 0xf0, "CALL": 0xf1, "CALLCODE": 0xf2, "INVALID": 0xfe, "MSTORE": 0x52, "JUMP": 0x56, "JUMPI": 0x57, "JUMPDEST": 0x5b, "EQ": 0x14, "SELFBALANCE": 0x47, "DUP1": 0x80, "RETURN": 0xf3, "DELEGATECALL": 0xf4, "CREATE2": 0xf5,
      "STATICCALL": 0xfa, "REVERT": 0xfd, "SELFDESTRUCT": 0xff, "POP": 0x50}
E18 = 10 ** 18


def asm(*items):
    out = bytearray()
    for it in items:
        if isinstance(it, str):
            out.append(OP[it])
        elif isinstance(it, int):          # PUSH1
            out += bytes([0x60, it])
        elif isinstance(it, (bytes, bytearray)):
            out += it
        elif isinstance(it, tuple) and it[0] == "addr":   # PUSH20 placeholder resolved by name -> fixed addresses
            out += bytes([0x73]) + it[1]
        else:
            raise TypeError(it)
    return bytes(out)


def addr_raw(index):
    """address of the index-th raw account (harness: 970000 + index)"""
    return (970_000 + index).to_bytes(20, "big")


def eoa(k):
    return (1000 + k).to_bytes(20, "big")


RCV = (990_009).to_bytes(20, "big")


def hexs(b):
    return b.hex()


def store_code():
    return asm(0x20, "CALLDATALOAD", 0, "CALLDATALOAD", "SSTORE", "STOP")


def destroy_code(to=RCV):
    return asm(("addr", to), "SELFDESTRUCT")


def factory_code():
    return asm("CALLDATASIZE", 0, 0, "CALLDATACOPY", 0, "CALLDATASIZE", 0, 0, "CREATE2", "STOP")


def factory_kill_code():
    return asm("CALLDATASIZE", 0, 0, "CALLDATACOPY", 0, "CALLDATASIZE", 0, 0, "CREATE2",
               0, 0, 0, 0, 0, "DUP6", "GAS", "CALL", "STOP")


def child_init(runtime=None, slot=1, value=7):
    rt = runtime if runtime is not None else destroy_code()
    return asm(value, slot, "SSTORE", len(rt), 17, 0, "CODECOPY", len(rt), 0, "RETURN") + rt


def call_code(target, kind="CALL", then_revert=False, store_flag=True, flag_slot=0):
    args = [0, 0, 0, 0] + ([0] if kind in ("CALL", "CALLCODE") else [])
    c = asm(*args, ("addr", target), "GAS", kind)
    if store_flag:
        c += asm(flag_slot, "SSTORE")
    c += asm(0, 0, "REVERT") if then_revert else asm("STOP")
    return c


def probe_code(target):
    return asm(("addr", target), "EXTCODESIZE", 0, "SSTORE", ("addr", target), "EXTCODEHASH", 1, "SSTORE",
               ("addr", target), "BALANCE", 2, "SSTORE", "STOP")


def set_code(v):
    return asm(v, 0, "SSTORE", "STOP")


def creator_code(create2=False):
    if create2:
        return asm(0, 0, 0, 0, "CREATE2", 0, "SSTORE", "STOP")
    return asm(0, 0, 0, "CREATE", 0, "SSTORE", "STOP")


def value_sender_code(to=RCV):
    return asm(0, 0, 0, 0, 0, "CALLDATALOAD", ("addr", to), "GAS", "CALL", "STOP")


def word(v):
    return v.to_bytes(32, "big")


class B:
    """Block builder."""

    def __init__(self, name, spec="SHANGHAI", policy=None):
        self.s = {"name": name, "kind": "raw", "spec": spec, "locs": [], "pre": {}, "progs": [], "accounts": [], "txs": [],
                  "loc_map": {}, "watch": []}
        if policy:
            self.s["policy"] = policy
        self.nonce = {}

    def account(self, name, code=None, storage=None, balance=0, nonce=1, delegate=None, at=None):
        a = {"name": name, "balance": str(balance), "nonce": nonce}
        if at:
            a["at"] = at
        if code is not None:
            a["code"] = hexs(code)
        if delegate:
            a["delegate"] = delegate
        if storage:
            a["storage"] = {str(k): str(v) for k, v in storage.items()}
        self.s["accounts"].append(a)
        return addr_raw(len(self.s["accounts"]) - 1)

    def index(self, name):
        return [a["name"] for a in self.s["accounts"]].index(name)

    def loc(self, name, account, slot, pre=0):
        self.s["locs"].append(name)
        self.s["pre"][name] = pre
        self.s["loc_map"][name] = [account, slot]

    def tx(self, frm, to=None, data=b"", value=0, gas_limit=400_000, gas_price=1, auth=None, create=False, nonce=None, prog=None):
        n = self.nonce.get(frm, 1) if nonce is None else nonce
        if nonce is None:
            self.nonce[frm] = n + 1
        t = {"from": frm, "to": to, "value": str(value), "gas_limit": gas_limit, "gas_price": gas_price, "nonce": n}
        if create:
            t["create"] = True
        if prog is not None:
            t["prog"] = prog
            t["to"] = "pc"
        else:
            t["data"] = hexs(data)
        if auth:
            t["auth"] = auth
        self.s["txs"].append(t)

    def prog(self, *ins):
        self.s["progs"].append([list(i) for i in ins])
        return len(self.s["progs"]) - 1

    def watch(self, name, slot=None):
        self.s["watch"].append([name] if slot is None else [name, slot])

    def done(self):
        self.s["n"] = len(self.s["txs"])
        # one (possibly empty) program per transaction index keeps the driver's table total
        while len(self.s["progs"]) < self.s["n"]:
            self.s["progs"].append([])
        return self.s


# ------------------------------------------------------------------------------------------------
def c08_family(specs=("SHANGHAI", "CANCUN", "PRAGUE")):
    out = []
    for spec in specs:
        # destroy - probe (- recreate - probe) on a pre-existing contract with storage
        b = B(f"d_destroy_probe_{spec}", spec)
        b.account("D", destroy_code(), {0: 21, 3: 23, 5: 25}, balance=9)
        b.account("Q", None, {}, nonce=1)
        b.loc("d0", "D", 0, 21)
        b.loc("d3", "D", 3, 23)
        b.loc("d5", "D", 5, 25)              # read for the first time only after the re-creation
        b.loc("q0", "Q", 0)
        b.loc("q1", "Q", 1)
        p1 = b.prog(); p2 = b.prog(("r", "d0", 1), ("w", "q0", 1, 1)); p3 = b.prog(("r", "d3", 1), ("w", "q1", 1, 1))
        b.tx("e0", "D")
        b.tx("e1", prog=p2)
        b.tx("e2", prog=p3)
        b.tx("e3", "D", value=5)            # value to the (possibly deleted) address: it exists again, storage stays empty
        b.loc("q2", "Q", 2)
        p4 = b.prog(); p4 = b.prog(("r", "d5", 1), ("r", "d0", 2), ("w", "q2", 1, 1))
        b.tx("e0", prog=p4)                 # probe after the re-creation
        b.watch("rcv")
        out.append(b.done())
        # create2 child with constructor storage - probe - destroy - probe - recreate - probe
        init = child_init()
        b = B(f"d_create_destroy_recreate_{spec}", spec)
        b.account("F", factory_code())
        b.account("Q", None, {}, nonce=1)
        child = "c2:F:" + hexs(init)
        b.loc("c1", child, 1)
        b.loc("q0", "Q", 0); b.loc("q1", "Q", 1); b.loc("q2", "Q", 2)
        p = [b.prog() for _ in range(1)]
        pa = b.prog(("r", "c1", 1), ("w", "q0", 1, 1))
        b.tx("e0", "F", init)
        b.tx("e1", prog=pa)
        b.tx("e2", child)                     # destroy (runtime self-destructs)
        pb = b.prog(); pb = b.prog(("r", "c1", 1), ("w", "q1", 1, 1))
        b.tx("e3", prog=pb)
        b.tx("e0", "F", init)                 # re-create at the same address (fails post-Cancun: still there)
        pc = b.prog(); pc = b.prog(("r", "c1", 1), ("w", "q2", 1, 1))
        b.tx("e1", prog=pc)
        b.watch(child, 1)
        out.append(b.done())
        # create + destroy in one transaction, then a transfer to the address
        b = B(f"d_create_and_destroy_one_tx_{spec}", spec)
        b.account("K", factory_kill_code())
        b.tx("e0", "K", init)
        child2 = "c2:K:" + hexs(init)
        b.tx("e1", child2, value=3, gas_limit=100_000)
        b.tx("e2", child2, value=4, gas_limit=100_000)
        b.watch(child2, 1)
        out.append(b.done())
        # EIP-161: touching an existing empty account deletes it; a later transfer re-creates it
        b = B(f"d_empty_touch_{spec}", spec)
        b.account("E", None, {}, balance=0, nonce=0)
        b.tx("e0", "E", value=0, gas_limit=100_000)
        b.tx("e1", "E", value=1, gas_limit=100_000)
        b.tx("e2", "E", value=0, gas_limit=100_000)
        out.append(b.done())
        # an inner-frame revert never leaks a deletion
        b = B(f"d_reverted_destroy_{spec}", spec)
        d = b.account("D", destroy_code(), {0: 21}, balance=9)
        b.account("R", call_code(d, then_revert=True, store_flag=False))
        b.account("Q", None, {}, nonce=1)
        b.loc("d0", "D", 0, 21); b.loc("q0", "Q", 0)
        b.tx("e0", "R")
        pa = b.prog(); pa = b.prog(("r", "d0", 1), ("w", "q0", 1, 1))
        b.tx("e1", prog=pa)
        out.append(b.done())
    return out


def c09_family():
    out = []
    # deployment by a create transaction, then calls and code inspection (pre-Prague)
    for spec in ("SHANGHAI", "CANCUN"):
        b = B(f"k_deploy_then_call_{spec}", spec)
        init = child_init(runtime=store_code(), slot=2, value=9)
        created = "c1:e0:1"
        b.tx("e0", None, init, create=True)
        b.tx("e1", created, word(5) + word(77))
        b.tx("e2", created, word(6) + word(78))
        b.watch(created, 5); b.watch(created, 6); b.watch(created, 2)
        out.append(b.done())
    # old forks (a created contract keeps nonce 0): deployment onto a pre-funded, code-less address with zero value -
    # only the code of the account changes - then calls and code inspection
    for spec in ("HOMESTEAD", "FRONTIER", "SPURIOUS_DRAGON", "BERLIN"):
        b = B(f"k_deploy_onto_prefunded_{spec}", spec)
        created = "c1:e0:1"
        b.account("P", None, {}, balance=7, nonce=0, at=created)
        b.account("X", probe_code(b"\0" * 20))   # placeholder, replaced below
        b.tx("e0", None, child_init(runtime=store_code(), slot=2, value=9), create=True, gas_limit=300_000)
        b.tx("e1", "P", word(5) + word(77), gas_limit=100_000)
        b.tx("e2", "P", word(6) + word(78), gas_limit=100_000)
        b.tx("e3", "P", word(5) + word(79), gas_limit=100_000)
        b.watch("P", 5); b.watch("P", 6); b.watch("P", 2)
        s_ = b.done()
        s_["accounts"] = [a for a in s_["accounts"] if a["name"] != "X"]
        out.append(s_)
    # EIP-7702: set, call, re-point, call, clear, call, set again, call - plus code inspection
    for spec in ("PRAGUE", "OSAKA"):
        b = B(f"k_delegate_set_repoint_clear_{spec}", spec)
        b.account("T1", set_code(1))
        b.account("T2", set_code(2))
        b.account("U", None, {}, balance=E18, nonce=0)
        u = addr_raw(b.index("U"))
        b.account("X", probe_code(u))
        b.account("Q", None, {}, nonce=1)
        b.loc("u0", "U", 0); b.loc("q0", "Q", 0); b.loc("q1", "Q", 1)
        A = lambda target, nonce, valid=True: [{"authority": "U", "target": target, "nonce": nonce, "valid": valid}]
        b.tx("e0", "U", auth=A("T1", 0))          # set + call in one tx
        pa = b.prog(); pa = b.prog(("r", "u0", 1), ("w", "q0", 1, 10))
        b.tx("e1", prog=pa)
        b.tx("e2", "X")                           # inspect code size / hash / balance of U
        b.tx("e3", "U", auth=A("T2", 1))          # re-point + call
        b.tx("e0", "U")                           # plain call through the delegation
        b.tx("e1", "U", auth=A("zero", 2))        # clear
        b.tx("e2", "U")                           # no code any more
        b.tx("e3", "U", auth=A("T1", 3))          # set again
        pb = b.prog()
        while len(b.s["progs"]) < 8:
            b.prog()
        pb = b.prog(("r", "u0", 1), ("w", "q1", 1, 10))
        b.tx("e0", prog=pb)
        b.tx("e1", "X")
        b.watch("U", 0); b.watch("X", 0); b.watch("X", 1)
        out.append(b.done())
        # several authorities, a repeated authority and an invalid authorisation in one list
        b = B(f"k_multi_authority_{spec}", spec)
        b.account("T1", set_code(1))
        b.account("T2", set_code(2))
        b.account("U", None, {}, balance=E18, nonce=0)
        b.account("V", None, {}, balance=E18, nonce=0)
        auth = [{"authority": "U", "target": "T1", "nonce": 0}, {"authority": "V", "target": "T2", "nonce": 0},
                {"authority": "U", "target": "T2", "nonce": 1}, {"authority": "V", "target": "T1", "nonce": 7}]
        b.tx("e0", "U", auth=auth)
        b.tx("e1", "V")
        b.tx("e2", "U")
        b.tx("e3", "V", auth=[{"authority": "V", "target": "T1", "nonce": 1, "valid": False}])
        b.watch("U", 0); b.watch("V", 0)
        out.append(b.done())
    return out


def c11_family():
    """Driver precompile reached directly, through CALL, STATICCALL and from a reverting frame."""
    out = []
    pc = (990_002).to_bytes(20, "big")
    b = B("p_nested_static_reverting", "SHANGHAI")
    b.account("N", asm(1, 0, 0, "CALLDATACOPY") + call_code(pc, store_flag=True))   # forwards calldata? (simple call, prog 0)
    b.account("S", call_code(pc, kind="STATICCALL"))
    b.account("R", call_code(pc, then_revert=True, store_flag=False))
    b.account("Q", None, {}, nonce=1)
    b.loc("x", "Q", 0, 3); b.loc("y", "Q", 1)
    p0 = b.prog(("r", "x", 1), ("w", "x", 1, 1))      # program 0: x := x + 1  (what nested callers trigger: calldata is empty -> prog 0)
    b.tx("e0", prog=p0)
    b.tx("e1", "N")       # nested call: same program through a contract frame
    b.tx("e2", "S")       # static context: the write must be refused, nothing changes
    b.tx("e3", "R")       # the frame reverts: the write is rolled back
    b.tx("e0", prog=p0)
    b.watch("N", 0); b.watch("S", 0)
    out.append(b.done())
    return out


def c12_family():
    """Call shapes reaching CREATE / CREATE2, with and without a delegation designator on the context account."""
    out = []
    for spec in ("PRAGUE", "CANCUN"):
        for guard in (True, False):
            for c2 in (False, True):
                tag = f"{spec}_{'on' if guard else 'off'}_{'create2' if c2 else 'create'}"
                b = B(f"g_shapes_{tag}", spec, policy={"create": guard, "reserve": False})
                t = b.account("T", creator_code(c2))                       # code that creates
                b.account("U", None, {}, balance=E18, nonce=0, delegate="T")   # delegated EOA (designator in pre-state)
                u = addr_raw(b.index("U"))
                b.account("C", call_code(u))                               # ordinary contract calling the delegated account
                b.account("DC", call_code(t, kind="DELEGATECALL"))         # ordinary contract delegate-calling T (context = DC)
                b.account("SC", call_code(u, kind="STATICCALL"))           # static call into the delegated account
                b.tx("e0", "U")            # top-level call into delegated context
                b.tx("e1", "C")            # nested
                b.tx("e2", "DC")           # create from an ordinary context through delegatecall
                b.tx("e3", "T")            # create from the ordinary contract itself
                b.tx("e0", "SC")           # static
                b.tx("e1", None, b"", create=True)   # top-level create transaction
                b.tx("U", "e2", value=1, gas_limit=21_000, nonce=0)   # the delegated account's own later transaction
                for n in ("U", "T", "C", "DC", "SC"):
                    b.watch(n, 0)
                out.append(b.done())
    return out


def c13_family():
    """Delegated value transfers against the reserve for the account's own later transactions."""
    out = []
    later_cost = 21_000 * 1 + 1          # max cost of the later own transaction below (gas_limit * price + value)
    for label, balance, send in (("ample", 10 * later_cost, later_cost), ("exact", 2 * later_cost, later_cost),
                                 ("insufficient", 2 * later_cost, later_cost + 1), ("no_later_tx", 2 * later_cost, 2 * later_cost)):
        for reserve in (True, False):
            b = B(f"r_{label}_{'on' if reserve else 'off'}", "PRAGUE", policy={"create": False, "reserve": reserve})
            b.account("T", value_sender_code())
            b.account("U", None, {}, balance=balance, nonce=0, delegate="T")
            b.tx("e0", "U", word(send), gas_limit=200_000)                 # delegated execution moves `send` out of U
            b.tx("e1", "e2", value=1, gas_limit=21_000)
            if label != "no_later_tx":
                b.tx("U", "e3", value=1, gas_limit=21_000, nonce=0)        # U's own later transaction must stay fundable
            b.watch("U"); b.watch("rcv")
            out.append(b.done())
    return out


# ------------------------------------------------------------------------------------------------
# Scenarios generated from the cases TLC enumerates from spec/rules/Delegated.tla
def c12_from_cases(cases, forks=None):
    """One block per rule case (call path x CREATE/CREATE2 x guard x fork). Where the rule says the
    creating frame halts, the oracle is stock revm on the block whose creator code is INVALID; everywhere
    else it is stock revm on the block itself."""
    out = []
    for c in cases:
        if forks and c["fork"] not in forks:
            continue
        path, c2, guard, fork = c["path"], c["create2"], c["guard"], c["fork"]
        tag = "_".join(path) + ("_create2" if c2 else "_create") + ("_on_" if guard else "_off_") + fork
        b = B("g_" + tag, fork, policy={"create": guard, "reserve": False})
        t = b.account("T", creator_code(c2))
        u2 = b.account("U2", None, {}, balance=E18, nonce=0, delegate="T")
        end = {"T": t, "U2": u2}
        hop = call_code(end[path[2]], kind=path[1], flag_slot=1) if len(path) == 3 else asm("STOP")
        b.account("F", hop)
        b.account("U", None, {}, balance=E18, nonce=0, delegate="F")
        if path == ["tx"]:
            b.tx("e0", None, creator_code(c2), create=True)
        else:
            b.tx("e0", path[0])
        ctx_acct = c["context"]
        if ctx_acct in ("U", "U2"):
            b.tx(ctx_acct, "e2", value=1, gas_limit=21_000, nonce=0)   # the delegated account's own later transaction
        b.tx("e1", "e2", value=1, gas_limit=21_000)
        for n in ("U", "U2", "F", "T"):
            b.watch(n, 0); b.watch(n, 1)
        s = b.done()
        s["prop"] = "C12"
        s["case"] = c
        if c["halts"]:
            s["oracle"] = "policy"
            s["oracle_alt"] = {"T": hexs(asm("INVALID"))}
            if ctx_acct in ("U", "U2"):
                # the consequence the property names: the account's own later transaction stays valid
                s["expect"] = {"kinds": {"1": "success"}, "final": [[ctx_acct, "nonce", 1]]}
        out.append(s)
    return out


def c13_from_cases(cases):
    out = []
    for k, c in enumerate(cases):
        b = B(f"r_case{k}_b{c['balance']}_s{c['send']}_l{len(c['later'])}_{'on' if c['reserve'] else 'off'}", "PRAGUE",
              policy={"create": False, "reserve": c["reserve"]})
        b.account("T", value_sender_code())
        b.account("U", None, {}, balance=c["balance"], nonce=0, delegate="T")
        b.tx("e0", "U", word(c["send"]), gas_limit=200_000)
        b.tx("e1", "e2", value=1, gas_limit=21_000)
        for i, cost in enumerate(c["later"]):
            b.tx("U", "e3", value=cost - 21_000, gas_limit=21_000, nonce=i)
        b.watch("U"); b.watch("rcv")
        s = b.done()
        s["prop"] = "C13"
        s["oracle"] = "policy"
        kinds = {"0": c["kind0"], "1": "success"}
        for i, kd in enumerate(c["later_kinds"]):
            kinds[str(2 + i)] = kd
        s["expect"] = {"kinds": kinds, "final": [["U", "balance", c["final"]]]}
        s["case"] = c
        out.append(s)
    return out


# ------------------------------------------------------------------------------------------------
# Reserve cases (spec/rules/Reserve.tla): per-case generated straight-line bytecode
def asm_l(*items):
    """asm with labels: ("label", n) emits JUMPDEST, ("to", n) pushes the label's offset (PUSH2)."""
    def size(it):
        if isinstance(it, tuple) and it[0] == "label":
            return 1
        if isinstance(it, tuple) and it[0] == "to":
            return 3
        return len(asm(it))
    pos, off = {}, 0
    for it in items:
        if isinstance(it, tuple) and it[0] == "label":
            pos[it[1]] = off
        off += size(it)
    out = bytearray()
    for it in items:
        if isinstance(it, tuple) and it[0] == "label":
            out.append(OP["JUMPDEST"])
        elif isinstance(it, tuple) and it[0] == "to":
            out += bytes([0x61]) + pos[it[1]].to_bytes(2, "big")
        else:
            out += asm(it)
    return bytes(out)


def push32(v):
    return bytes([0x7f]) + (v if isinstance(v, bytes) else v.to_bytes(32, "big")).rjust(32, b"\0")


MODE = {"send": 0, "send_rev": 1, "destroy": 2, "create": 3, "credit": 4}


def actor_code():
    """Code every delegated account of a reserve case points to: calldata = (amount, destination, mode)."""
    return asm_l(0x40, "CALLDATALOAD",
                 "DUP1", 2, "EQ", ("to", "destroy"), "JUMPI",
                 "DUP1", 3, "EQ", ("to", "create"), "JUMPI",
                 "DUP1", 4, "EQ", ("to", "stop"), "JUMPI",
                 0, 0, 0, 0, 0, "CALLDATALOAD", 0x20, "CALLDATALOAD", "GAS", "CALL", "POP",
                 1, "EQ", ("to", "rev"), "JUMPI",
                 "STOP",
                 ("label", "rev"), 0, 0, "REVERT",
                 ("label", "destroy"), 0x20, "CALLDATALOAD", "SELFDESTRUCT",
                 ("label", "create"), 0, 0, 0, "CALLDATALOAD", "CREATE", "POP", "STOP",
                 ("label", "stop"), "STOP")


def fanout_code(script, addr_of):
    """Straight-line fan-out; a storage flag makes a re-entrant call (a debit paid to K itself) a no-op."""
    items = [0, "SLOAD", ("to", "stop"), "JUMPI", 1, 0, "SSTORE"]
    for st in script:
        dest = addr_of.get(st["dest"], b"")
        value = st["amt"] if st["op"] == "credit" else 0
        items += [push32(st["amt"]), 0, "MSTORE", push32(dest), 0x20, "MSTORE", push32(MODE[st["op"]]), 0x40, "MSTORE",
                  0, 0, 0x60, 0, push32(value), ("addr", addr_of[st["x"]]), "GAS", "CALL", "POP"]
    return asm_l(*items, ("label", "stop"), "STOP")


def _unused_fanout(script, addr_of):
    c = b""
    for st in script:
        dest = addr_of.get(st["dest"], b"")
        value = st["amt"] if st["op"] == "credit" else 0
        c += asm(push32(st["amt"]), 0, "MSTORE", push32(dest), 0x20, "MSTORE", push32(MODE[st["op"]]), 0x40, "MSTORE",
                 0, 0, 0x60, 0, push32(value), ("addr", addr_of[st["x"]]), "GAS", "CALL", "POP")
    return c + asm("STOP")


def c13_from_reserve_cases(outs):
    res = []
    for k, o in enumerate(outs):
        c = o["case"]
        tag = "_".join(f"{st['op']}{st['x']}{st['amt'] // 21001}{st['dest'][0]}" for st in c["script"])
        b = B(f"rs{k}_{c['sender']}_v{c['v'] // 21001}_a{c['balA'] // 21001}_l{c['laterA']}{c['laterB']}_{tag}_{'on' if c['reserve'] else 'off'}",
              "PRAGUE", policy={"create": False, "reserve": c["reserve"]})
        b.account("ACT", actor_code())
        a = b.account("A", None, {}, balance=c["balA"], nonce=0, delegate="ACT")
        bb = b.account("B", None, {}, balance=c["balB"], nonce=0, delegate="ACT")
        kk = addr_raw(3)
        b.account("K", fanout_code(c["script"], {"A": a, "B": bb, "K": kk, "R": RCV}), {}, balance=5 * 21001)
        if c["sender"] == "A":
            b.tx("A", "K", value=c["v"], gas_limit=900_000, gas_price=0, nonce=0)
        else:
            b.tx("e0", "K", value=c["v"], gas_limit=900_000)
        kinds = {"0": o["kind0"]}
        if c["laterA"]:
            kinds[str(len(b.s["txs"]))] = o["kindA"].split("_")[0]
            b.tx("A", "e2", value=1, gas_limit=21_000, nonce=1 if c["sender"] == "A" else 0)
        if c["laterB"]:
            kinds[str(len(b.s["txs"]))] = o["kindB"].split("_")[0]
            b.tx("B", "e2", value=1, gas_limit=21_000, nonce=0)
        b.tx("e1", "e2", value=1, gas_limit=21_000)
        b.watch("A"); b.watch("B"); b.watch("K"); b.watch("rcv")
        s = b.done()
        s["prop"] = "C13"
        s["case"] = c
        s["expect"] = {"kinds": kinds, "final": [["A", "balance", o["balA"]], ["B", "balance", o["balB"]],
                                                 ["A", "nonce", o["nonceA"]], ["B", "nonce", o["nonceB"]]]}
        if c["reserve"] and o["violates"]:
            s["oracle"] = "policy"       # stock revm is no oracle for a transaction the policy reverts
        res.append(s)
    return res
