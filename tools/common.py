"""Shared plumbing of /verif/check: harness build, harness jobs, TLC jobs, evidence, verdicts."""
import json
import re
import os
import random
import shutil
import subprocess
import sys
import time

sys.path.insert(0, os.path.dirname(os.path.abspath(__file__)))
import tlc  # noqa: E402

ROOT = tlc.ROOT
WORK = tlc.WORK
SPEC = tlc.SPEC
HARNESS = os.path.join(ROOT, "harness")
VH = os.path.join(HARNESS, "target", "debug", "vh")
EVIDENCE = os.path.join(ROOT, "evidence")
REPLAY = os.path.join(ROOT, "replay")
KNOWN = os.path.join(ROOT, "KNOWN_FINDINGS.json")


class ToolError(Exception):
    """Build failure, TLC crash, timeout, vacuity, conformance drift: exit 2, never a VIOLATION."""


class Ctx:
    """One check run: collects TLC statistics, traces, samples, violations."""

    def __init__(self, prop, tier, level):
        self.prop = prop
        self.tier = tier
        self.level = level
        self.seed = int(os.environ.get("VERIF_SEED", "1"))
        self.t0 = time.time()
        self.states = 0
        self.transitions = 0
        self.traces = 0
        self.trace_events = 0
        self.samples = []
        self.violations = []      # (what, replay_path)
        self.known = []
        self.tlc_runs = []
        self.guards = {}
        self.notes = {}
        self.assumptions = []
        self.evaluations = 0
        self.distinct = 0
        self.exhaustive = None
        self.rule = ("evaluations = executions of the real code under the step controller (one per schedule / "
                     "fault point / generated case); distinct_nontrivial = those with pairwise different thread "
                     "schedules (every one of them interleaves at least two threads)")
        self.workdir = os.path.join(WORK, prop)
        shutil.rmtree(self.workdir, ignore_errors=True)
        os.makedirs(self.workdir, exist_ok=True)
        os.makedirs(EVIDENCE, exist_ok=True)
        os.makedirs(REPLAY, exist_ok=True)
        self.rng = random.Random(self.seed)

    def path(self, name):
        return os.path.join(self.workdir, name)

    def quick(self):
        return self.tier == "quick"

    def n(self, quick_n, thorough_n):
        """Run count of a stage. VERIF_THOROUGH_SCALE (default 1) scales the thorough counts down for a smoke
        run of the thorough code paths; it is never set by the registered commands."""
        if self.quick():
            return quick_n
        return max(quick_n, int(thorough_n * float(os.environ.get("VERIF_THOROUGH_SCALE", "1"))))

    # ---- TLC -------------------------------------------------------------------------------
    def tlc(self, module, name, expect="ok", workers=None, timeout=None, **cfg):
        """Run TLC on `module` with a generated cfg. expect: 'ok' | 'violation' | 'any'."""
        cfg_path = self.path(name + ".cfg")
        run_kw = {}
        for k in ("simulate", "depth", "env", "queue_dfs", "heap", "dump_trace", "extra", "coverage"):
            if k in cfg:
                run_kw[k] = cfg.pop(k)
        tlc.write_cfg(cfg_path, **cfg)
        res = tlc.run(module, cfg_path, workers=workers or 4, timeout=timeout or 600,
                      tag=f"{self.prop}_{name}", **run_kw)
        entry = {"name": name, "module": module, "states": res["states"], "distinct": res["distinct"],
                 "depth": res["depth"], "wall_s": res["wall_s"], "ok": res["ok"],
                 "violation": res["violation"], "invariant": res["invariant"]}
        self.tlc_runs.append(entry)
        if res["violation"] in ("timeout", "error"):
            raise ToolError(f"TLC {name} on {module}: {res['violation']}\n" + tlc.tail(res, 25))
        if expect == "ok" and not res["ok"]:
            raise SpecViolation(name, res)
        if expect == "violation" and res["ok"]:
            entry["unexpected_pass"] = True
        if res["ok"]:
            self.states += res["distinct"]
            self.transitions += res["states"]
        return res

    def require_coverage(self, res, actions):
        """Vacuity guard: every named action must have been taken at least once."""
        missing = [a for a in actions if res["coverage"].get(a, [0, 0])[1] == 0]
        if missing:
            raise ToolError(f"vacuous TLC run {res['module']}: actions never taken: {missing}")

    # ---- harness ---------------------------------------------------------------------------
    def vh(self, command, args, timeout=1800):
        argfile = self.path(f"vh_{command}_{len(os.listdir(self.workdir))}.json")
        with open(argfile, "w") as f:
            json.dump(args, f)
        p = subprocess.run([VH, command, "@" + argfile], stdout=subprocess.PIPE, stderr=subprocess.PIPE,
                           text=True, timeout=timeout)
        if p.returncode != 0:
            raise ToolError(f"harness {command} failed rc={p.returncode}: {p.stderr[-2000:]}")
        try:
            return json.loads(p.stdout.strip().splitlines()[-1])
        except Exception as e:  # noqa: BLE001
            raise ToolError(f"harness {command} produced no JSON: {e}: {p.stdout[-500:]} {p.stderr[-500:]}")

    CHUNK = 400_000

    def validate_trace(self, module, trace_path, name, constants, invariants=(), expect_accept=True,
                       timeout=900, overrides=None):
        """TLC trace validation. Returns (accepted, rejected_at, result). TLC reads a trace file into memory as a
        whole: files of the thorough tiers (millions of records) are validated in pieces cut at RESET records."""
        try:
            with open(trace_path, "rb") as f:
                n_lines = sum(1 for _ in f)
        except OSError:
            n_lines = 0
        if n_lines <= self.CHUNK:
            return self._validate_one(module, trace_path, name, constants, invariants, timeout, overrides, n_lines)
        last = (True, None, None)
        part, count, k = None, 0, 0
        paths = []
        with open(trace_path) as f:
            for line in f:
                if '"l":"RESET"' in line.replace(" ", "")[:200] and (part is None or count >= self.CHUNK):
                    if part:
                        part.close()
                    paths.append(f"{trace_path}.part{k}")
                    part, count, k = open(paths[-1], "w"), 0, k + 1
                part.write(line)
                count += 1
        part.close()
        for k, pth in enumerate(paths):
            with open(pth, "rb") as f:
                n = sum(1 for _ in f)
            last = self._validate_one(module, pth, f"{name}_part{k}", constants, invariants, timeout, overrides, n)
            if not last[0]:
                self._chunk_of = getattr(self, "_chunk_of", {})
                self._chunk_of[trace_path] = pth
                return last
            os.remove(pth)
        return last

    def _validate_one(self, module, trace_path, name, constants, invariants, timeout, overrides, n_lines):
        # budget by trace length (measured: 3-6 k records per second)
        timeout = max(timeout, 300 + n_lines // 1200)
        cfg_path = self.path(name + ".cfg")
        tlc.write_cfg(cfg_path, spec="TraceSpec", constants=constants, invariants=invariants,
                      postcondition="TraceAccepted", deadlock=False, overrides=overrides)
        res = tlc.run(module, cfg_path, workers=1, timeout=timeout, tag=f"{self.prop}_{name}",
                      env={"TRACE": trace_path}, queue_dfs=True, heap="6g", coverage=False)
        self.tlc_runs.append({"name": name, "module": module, "states": res["states"],
                              "wall_s": res["wall_s"], "ok": res["ok"], "violation": res["violation"],
                              "invariant": res["invariant"]})
        if res["violation"] in ("timeout", "error") and "TRACE REJECTED" not in res["out"]:
            raise ToolError(f"trace validation {name}: {res['violation']}\n" + tlc.tail(res, 25))
        rejected_at = None
        k = res["out"].find('"TRACE REJECTED')
        if k >= 0:
            # the Print spans several lines for long records
            rejected_at = " ".join(res["out"][k - 3:k + 900].split())
        accepted = res["ok"] and rejected_at is None
        return accepted, rejected_at, res

    # ---- verdicts --------------------------------------------------------------------------
    def rejected(self, module, trace_path, where, constants, invariants=(), spec_name=None, extra=None, invariant=None):
        """A run recorded from the real code is not a behaviour of the specification: the code has left the
        design on which the property is established. The rejected run (from its RESET record to the first
        unexplained step) is stored next to the replay file so that `check replay` can re-validate it."""
        trace_path = getattr(self, "_chunk_of", {}).get(trace_path, trace_path)      # the piece in which validation stopped
        m = re.search(r'TRACE REJECTED at record",?\s*(\d+)', where or "") or re.search(r"(\d+)", str((extra or {}).get("at_record", "")))
        with open(trace_path) as f:
            lines = f.read().splitlines()
        d = min(int(m.group(1)), len(lines)) if m else len(lines)
        start = max((i for i in range(d) if '"l":"RESET"' in lines[i].replace(" ", "")), default=0)
        seg = os.path.join(REPLAY, f"{self.prop}_{len(self.violations)}_{int(time.time())}_trace.ndjson")
        with open(seg, "w") as f:
            f.write("\n".join(lines[start:d]) + "\n")
        step = lines[d - 1][:600] if 0 < d <= len(lines) else "end of trace"
        obj = {"kind": "trace_rejected", "module": module, "constants": constants, "invariants": list(invariants),
               "trace": seg, "record_in_recorded_file": d, "first_unexplained_step": step, "signature": None}
        if extra:
            obj.update(extra)
        if invariant:
            obj["kind"] = "trace_invariant"
            self.violation(f"invariant {invariant} of {spec_name or module} fails on a run recorded from the real code, at: {step}", obj)
        else:
            self.violation(f"conformance: a recorded run of the real code is not a behaviour of {spec_name or module}; first step the "
                           f"specification cannot take: {step}", obj)

    def trace_verdict(self, ok, where, tres, module, trace_path, constants, invariants, spec_name):
        """Verdict of one trace validation: accepted, invariant failed on a recorded run, or run not explainable."""
        if ok:
            return True
        if tres["invariant"]:
            n = len(tres.get("trace_actions") or [])
            self.rejected(module, trace_path, where, constants, invariants, spec_name=spec_name, invariant=tres["invariant"],
                          extra={"at_record": max(n - 1, 1)} if n else None)
        else:
            self.rejected(module, trace_path, where, constants, invariants, spec_name=spec_name)
        return False

    def violation(self, what, replay_obj):
        """A monitor failed on the real code (or a generated case disagreed with its oracle)."""
        sig = replay_obj.get("signature")
        for k in load_known():
            if k.get("property") == self.prop and k.get("status") == "known" and sig and k.get("signature") == sig:
                self.known.append(k)
                print(f"KNOWN-FINDING: property={self.prop} {k['what']}")
                return
        path = os.path.join(REPLAY, f"{self.prop}_{len(self.violations)}_{int(time.time())}.json")
        replay_obj = dict(replay_obj)
        replay_obj["property"] = self.prop
        replay_obj["what"] = what
        with open(path, "w") as f:
            json.dump(replay_obj, f, indent=1)
        self.violations.append((what, path))

    def finish(self, coverage_extra=None):
        cov = {
            "states": max(self.states, 0),
            "transitions": max(self.transitions, 0),
            "traces_validated_against_impl": self.traces,
            "trace_events_validated": self.trace_events,
            "samples": self.samples[:6] or ["(none)"],
            "evaluations": self.evaluations,
            "distinct_nontrivial": self.distinct,
            "rule": self.rule,
            "tlc_runs": self.tlc_runs,
            "guards": self.guards,
        }
        if self.exhaustive is not None:
            cov["exhaustive"] = self.exhaustive
        cov.update(self.notes)
        if coverage_extra:
            cov.update(coverage_extra)
        ev = {
            "property_id": self.prop,
            "tier": self.tier,
            "seed": self.seed,
            "level": self.level,
            "coverage": cov,
            "assumptions": self.assumptions,
            "wall_s": round(time.time() - self.t0, 1),
            "violations": len(self.violations),
            "known_findings": [k.get("what") for k in self.known],
        }
        with open(os.path.join(EVIDENCE, f"{self.prop}.json"), "w") as f:
            json.dump(ev, f, indent=1, default=str)
        for what, path in self.violations:
            print(f"VIOLATION property={self.prop} replay={path}")
            print(f"  {what}")
        return 1 if self.violations else 0


class SpecViolation(Exception):
    """The specification itself (all guards on) violates a property: design-level counterexample."""

    def __init__(self, name, res):
        super().__init__(f"TLC {name}: {res['violation']} {res['invariant']}")
        self.name = name
        self.res = res


def load_known():
    try:
        with open(KNOWN) as f:
            return json.load(f).get("findings", [])
    except FileNotFoundError:
        return []


def build_harness():
    """Rebuild the harness (and, through the path dependency, /repo with hooks on)."""
    t0 = time.time()
    lock_src = "/repo/Cargo.lock"
    lock_dst = os.path.join(HARNESS, "Cargo.lock")
    if not os.path.exists(lock_dst):
        shutil.copy(lock_src, lock_dst)
    env = dict(os.environ)
    env.setdefault("CARGO_NET_OFFLINE", "true")
    p = subprocess.run(["cargo", "build", "--offline", "--quiet"], cwd=HARNESS, stdout=subprocess.PIPE,
                       stderr=subprocess.STDOUT, text=True, env=env)
    if p.returncode != 0:
        raise ToolError("harness build failed (does /repo still compile with --cfg grevm_verif?)\n"
                        + p.stdout[-4000:])
    return round(time.time() - t0, 1)


def corrupt_trace(src, dst, mode, rng, key=None):
    """Binding demonstration: change one logged field / drop one event in a copy of a trace."""
    with open(src) as f:
        lines = f.read().splitlines()
    idx = [i for i, ln in enumerate(lines) if '"RESET"' not in ln]
    if mode == "drop":
        # Drop an event that the specification cannot skip: prefer state-changing ones.
        cands = []
        for i in idx:
            if key is not None and f'"l":"{key}"' not in lines[i]:
                continue
            # only events that the same thread follows up within the same run: dropping the last
            # event of a thread leaves a valid (shorter) behaviour
            t = json.loads(lines[i]).get("t")
            j = i + 1
            while j < len(lines) and '"RESET"' not in lines[j]:
                if json.loads(lines[j]).get("t") == t:
                    cands.append(i)
                    break
                j += 1
        i = cands[rng.randrange(len(cands))]
        del lines[i]
        what = f"dropped record {i + 1}"
    else:
        cands = []
        for i in idx:
            o = json.loads(lines[i])
            if key in o and isinstance(o[key], bool):
                cands.append(i)
            elif key in o and isinstance(o[key], int):
                cands.append(i)
        i = cands[rng.randrange(len(cands))]
        o = json.loads(lines[i])
        o[key] = (not o[key]) if isinstance(o[key], bool) else o[key] + 1
        lines[i] = json.dumps(o, separators=(",", ":"))
        what = f"changed field {key} of record {i + 1}"
    with open(dst, "w") as f:
        f.write("\n".join(lines) + "\n")
    return what


def main_wrapper(fn, prop, tier, level):
    ctx = Ctx(prop, tier, level)
    try:
        ctx.notes["harness_build_s"] = build_harness()
        fn(ctx)
        rc = ctx.finish()
    except SpecViolation as e:
        print(f"TOOL-ERROR property={prop}: specification-level counterexample in {e.name}: "
              f"{e.res['violation']} {e.res['invariant']} (not replayed on the code, no verdict)")
        print(tlc.tail(e.res, 40))
        ctx.notes["error"] = str(e)
        ctx.finish()
        rc = 2
    except ToolError as e:
        print(f"TOOL-ERROR property={prop}: {e}")
        ctx.notes["error"] = str(e)[:2000]
        rc = ctx.finish()
        # a monitor failure observed before the tool problem is still a verdict
        rc = 1 if rc == 1 else 2
    except subprocess.TimeoutExpired as e:
        print(f"TOOL-ERROR property={prop}: timeout {e}")
        rc = 2
    return rc
