"""Thin TLC runner: builds a .cfg, runs TLC under a timeout, parses the outcome.

Exit-code policy lives in the callers; this module only reports what TLC said.
"""
import json
import os
import re
import shutil
import subprocess
import time

ROOT = os.path.dirname(os.path.dirname(os.path.abspath(__file__)))
SPEC = os.path.join(ROOT, "spec")
WORK = os.path.join(ROOT, "work")
JAR = "/opt/veriftools/tla/tla2tools.jar"
CM = "/opt/veriftools/tla/CommunityModules-deps.jar"


def _classpath():
    cands = [JAR]
    d = os.path.dirname(JAR)
    for f in sorted(os.listdir(d)):
        if f.endswith(".jar") and f != os.path.basename(JAR):
            cands.append(os.path.join(d, f))
    return ":".join(cands)


def fmt_value(v):
    """Python value -> TLA+ constant expression for a cfg file."""
    if isinstance(v, bool):
        return "TRUE" if v else "FALSE"
    if isinstance(v, int):
        return str(v)
    if isinstance(v, str):
        return v  # already TLA+ text (model value, set expression, quoted string ...)
    if isinstance(v, (set, frozenset)):
        return "{" + ", ".join(sorted(fmt_value(x) for x in v)) + "}"
    raise TypeError(v)


def tla(v):
    """Python value -> TLA+ expression text (for generated MC modules)."""
    if isinstance(v, bool):
        return "TRUE" if v else "FALSE"
    if isinstance(v, int):
        return str(v)
    if isinstance(v, str):
        return '"%s"' % v
    if isinstance(v, (list, tuple)):
        return "<<" + ", ".join(tla(x) for x in v) + ">>"
    if isinstance(v, (set, frozenset)):
        return "{" + ", ".join(sorted(tla(x) for x in v)) + "}"
    if isinstance(v, dict):
        return "[" + ", ".join(f"{k} |-> {tla(x)}" for k, x in v.items()) + "]"
    if v is None:
        return '"none"'
    raise TypeError(v)


def write_module(path, name, extends, defs):
    """Generated module `name` EXTENDS `extends` with operator definitions defs (name -> TLA text)."""
    with open(path, "w") as f:
        f.write(f"---- MODULE {name} ----\nEXTENDS {extends}\n")
        for k, v in defs.items():
            f.write(f"{k} == {v}\n")
        f.write("====\n")


def write_cfg(path, spec="Spec", constants=None, invariants=(), properties=(), constraints=(),
              action_constraints=(), view=None, deadlock=True, symmetry=None, postcondition=None,
              init=None, next_=None, overrides=None, alias=None):
    lines = []
    if init and next_:
        lines += [f"INIT {init}", f"NEXT {next_}"]
    else:
        lines.append(f"SPECIFICATION {spec}")
    if constants or overrides:
        lines.append("CONSTANTS")
        for k, v in (constants or {}).items():
            lines.append(f"  {k} = {fmt_value(v)}")
        for k, v in (overrides or {}).items():
            lines.append(f"  {k} <- {v}")
    if invariants:
        lines.append("INVARIANTS " + " ".join(invariants))
    if properties:
        lines.append("PROPERTIES " + " ".join(properties))
    for c in constraints:
        lines.append(f"CONSTRAINT {c}")
    for c in action_constraints:
        lines.append(f"ACTION_CONSTRAINT {c}")
    if view:
        lines.append(f"VIEW {view}")
    if symmetry:
        lines.append(f"SYMMETRY {symmetry}")
    if postcondition:
        lines.append(f"POSTCONDITION {postcondition}")
    if alias:
        lines.append(f"ALIAS {alias}")
    lines.append("CHECK_DEADLOCK " + ("TRUE" if deadlock else "FALSE"))
    with open(path, "w") as f:
        f.write("\n".join(lines) + "\n")


_RE_STATES = re.compile(r"(\d+) states generated, (\d+) distinct states found, (\d+) states left")
_RE_COV = re.compile(r"^<(\w+) line (\d+), col \d+ to line \d+, col \d+ of module (\w+)(?: \([\d ]+\))?>: (\d+):(\d+)", re.M)
_RE_DEPTH = re.compile(r"The depth of the complete state graph search is (\d+)")
_RE_INV = re.compile(r"Error: Invariant (\w+) is violated")
_RE_STATE = re.compile(r"^State (\d+): <(\w+)(?:\([^)]*\))? line (\d+), col", re.M)


def run(module, cfg_path, workers=4, timeout=600, simulate=None, depth=None, tag=None, env=None,
        extra=(), heap="8g", coverage=True, dump_trace=None, queue_dfs=False, cwd=None):
    """Run TLC. Returns a dict with ok / violation kind / counts / coverage / raw tail."""
    tag = tag or f"{module}_{os.getpid()}_{int(time.time()*1000) % 100000}"
    meta = os.path.join(WORK, "meta_" + tag)
    shutil.rmtree(meta, ignore_errors=True)
    os.makedirs(meta, exist_ok=True)
    jopts = [f"-Xmx{heap}", "-XX:+UseParallelGC", f"-DTLA-Library={SPEC}"]
    if queue_dfs:
        jopts += ["-Xss1g", "-Dtlc2.tool.queue.IStateQueue=StateDeque"]
    cmd = ["timeout", str(timeout), "java"] + jopts + ["-cp", _classpath(), "tlc2.TLC",
           "-workers", str(workers), "-metadir", meta, "-cleanup", "-noGenerateSpecTE",
           "-config", cfg_path]
    if coverage:
        cmd += ["-coverage", "1"]
    if simulate:
        cmd += ["-simulate", f"num={simulate}"]
    if depth:
        cmd += ["-depth", str(depth)]
    if dump_trace:
        cmd += ["-dumpTrace", "json", dump_trace]
    cmd += list(extra)
    cmd.append(os.path.join(SPEC, module + ".tla") if not os.path.isabs(module) else module)
    e = dict(os.environ)
    if env:
        e.update(env)
    t0 = time.time()
    p = subprocess.run(cmd, stdout=subprocess.PIPE, stderr=subprocess.STDOUT, text=True, env=e,
                       cwd=cwd or SPEC)
    wall = time.time() - t0
    out = p.stdout
    shutil.rmtree(meta, ignore_errors=True)
    res = {"module": module, "wall_s": round(wall, 2), "rc": p.returncode, "timeout": p.returncode == 124,
           "states": 0, "distinct": 0, "queue": 0, "depth": None, "violation": None,
           "invariant": None, "coverage": {}, "trace_actions": [], "out": out}
    ms = _RE_STATES.findall(out)
    if ms:
        g, d, q = ms[-1]
        res.update(states=int(g), distinct=int(d), queue=int(q))
    elif simulate:
        # simulation mode reports "N states checked, M traces generated"
        sm = re.findall(r"(\d+) states checked(?:, (\d+) traces generated)?", out)
        if sm:
            n = int(sm[-1][0])
            res.update(states=n, distinct=n)
            res["behaviours"] = int(sm[-1][1] or 0)
    m = _RE_DEPTH.search(out)
    if m:
        res["depth"] = int(m.group(1))
    for name, _line, mod, dist, tot in _RE_COV.findall(out):
        c = res["coverage"].setdefault(name, [0, 0])
        c[0] += int(dist)
        c[1] += int(tot)
    if "Model checking completed. No error has been found." in out or (
            simulate and "Error:" not in out and p.returncode in (0, 124)):
        res["ok"] = True
    else:
        res["ok"] = False
        m = _RE_INV.search(out)
        if m:
            res["violation"] = "invariant"
            res["invariant"] = m.group(1)
        elif "Deadlock reached" in out:
            res["violation"] = "deadlock"
        elif "Temporal properties were violated" in out:
            res["violation"] = "liveness"
        elif "Action property" in out and "violated" in out:
            res["violation"] = "action_property"
        elif "The postcondition" in out or "Postcondition" in out:
            res["violation"] = "postcondition"
        elif res["timeout"]:
            res["violation"] = "timeout"
        else:
            res["violation"] = "error"
        res["trace_actions"] = [a for _n, a, _l in _RE_STATE.findall(out)]
    return res


def tail(res, n=30):
    lines = [l for l in res["out"].splitlines() if not l.startswith(("Parsing", "Semantic", "  line", "  |"))]
    return "\n".join(lines[-n:])


if __name__ == "__main__":
    import sys
    r = run(sys.argv[1], os.path.join(SPEC, sys.argv[2]))
    print(json.dumps({k: v for k, v in r.items() if k != "out"}, indent=1))
    print(tail(r))
