"""check replay <file>: re-run the schedule stored in a replay file and print what happens."""
import json
import subprocess

import common


def main(path):
    with open(path) as f:
        r = json.load(f)
    print(f"property {r.get('property')}: {r.get('what')}")
    common.build_harness()
    kind = r.get("kind")
    if kind in ("wait_probe", "cursor_probe", "dep_probe", "sched_run") and "args" in r:
        cmd = {"wait_probe": "wait", "cursor_probe": "cursor", "dep_probe": "dep", "sched_run": "sched"}[kind]
        args = dict(r["args"])
        args.update(policy="replay", schedule=r.get("schedule", []), max_runs=1,
                    out=common.os.path.join(common.WORK, "replay.ndjson"))
        if "script" in r:
            args["scripts"] = [r["script"]]
        p = subprocess.run([common.VH, cmd, json.dumps(args)], stdout=subprocess.PIPE, text=True)
        out = json.loads(p.stdout.strip().splitlines()[-1])
        viol = out.get("violations") or [v for s in out.get("scripts", []) for v in s.get("violations", [])]
        print("reproduced" if viol else "not reproduced", json.dumps(viol)[:2000])
        return 1 if viol else 0
    if kind == "lifecycle":
        cases = common.os.path.join(common.WORK, "replay_lifecycle.json")
        with open(cases, "w") as f:
            json.dump([r["case"]], f)
        p = subprocess.run([common.VH, "lifecycle", json.dumps({"cases": cases})], stdout=subprocess.PIPE, text=True)
        out = json.loads(p.stdout.strip().splitlines()[-1])
        viol = out.get("violations") or out.get("model_mismatch")
        print("reproduced" if viol else "not reproduced", json.dumps(viol)[:2000])
        return 1 if viol else 0
    if kind == "matrix" and isinstance(r.get("scenario"), dict):
        p = subprocess.run([common.VH, "matrix", json.dumps({"scenarios": [r["scenario"]], "repeat": 3})], stdout=subprocess.PIPE, text=True)
        out = json.loads(p.stdout.strip().splitlines()[-1])
        print("reproduced" if out.get("violations") else "not reproduced", json.dumps(out.get("violations"))[:2000])
        return 1 if out.get("violations") else 0
    if kind in ("trace_rejected", "trace_invariant"):
        ctx = common.Ctx("replay", "quick", "replay")     # own scratch directory: a check's work directory is left alone
        ok, where, tres = ctx.validate_trace(r["module"], r["trace"], "replay_trace", r["constants"], invariants=r.get("invariants", ()))
        print("reproduced: " + (where or f"invariant {tres['invariant']}") if not ok else "not reproduced: the stored run is accepted")
        return 0 if ok else 1
    print("no automatic replay for this kind; the file contains the failing input and trace")
    return 0
