#!/usr/bin/env python3
"""muttest.py <candidate dir> <check> [<check>...]: apply a seeded change to /repo, run checks, undo."""
import json, os, subprocess, sys, time
cand = sys.argv[1]
checks = sys.argv[2:]
patch = os.path.join(cand, "patch.rebased.diff")
if not os.path.exists(patch):
    patch = os.path.join(cand, "patch.diff")
def sh(cmd, **kw):
    return subprocess.run(cmd, shell=True, stdout=subprocess.PIPE, stderr=subprocess.STDOUT, text=True, **kw)
assert sh("git -C /repo status --porcelain").stdout.strip() == "", "repo not clean"
r = sh(f"git -C /repo apply {patch}")
if r.returncode != 0:
    r = sh(f"git -C /repo apply -3 {patch}")
    sh("git -C /repo reset -q")
    if "conflict" in r.stdout.lower() or r.returncode != 0:
        print("APPLY-FAILED", r.stdout[-500:])
        sh("git -C /repo checkout -- .")
        sys.exit(3)
res = {}
import shutil
bk = "/verif/work/evidence_backup"
shutil.rmtree(bk, ignore_errors=True)
shutil.copytree("/verif/evidence", bk)      # evidence committed under /verif comes from the unchanged tree only
try:
    for c in checks:
        t = time.time()
        p = sh(f"cd /verif && ./check {c} --tier quick")
        viol = [l for l in p.stdout.splitlines() if l.startswith("VIOLATION") or l.startswith("TOOL-ERROR") or l.startswith("  ")]
        res[c] = {"rc": p.returncode, "s": round(time.time() - t), "lines": viol[:6]}
        print(c, json.dumps(res[c])[:900], flush=True)
finally:
    sh("git -C /repo checkout -- .")
    sh("rm -rf /verif/replay/*")
    shutil.rmtree("/verif/evidence", ignore_errors=True)
    shutil.copytree(bk, "/verif/evidence")
print("RESULT", os.path.basename(cand), {c: res[c]["rc"] for c in res})
