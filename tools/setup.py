"""check setup: cold harness build + SANY over every specification module."""
import glob
import os
import subprocess
import sys

import common


def main():
    try:
        t = common.build_harness()
    except common.ToolError as e:
        print(e)
        return 2
    print(f"harness built in {t}s")
    bad = 0
    for f in sorted(glob.glob(os.path.join(common.SPEC, "*.tla")) + glob.glob(os.path.join(common.SPEC, "rules", "*.tla"))):
        p = subprocess.run(["java", "-cp", common.tlc._classpath(), "tla2sany.SANY", f],
                           stdout=subprocess.PIPE, stderr=subprocess.STDOUT, text=True, cwd=os.path.dirname(f))
        ok = p.returncode == 0 and "Semantic errors" not in p.stdout and "***Parse Error***" not in p.stdout
        print(("ok   " if ok else "FAIL ") + os.path.basename(f))
        if not ok:
            print(p.stdout[-1500:])
            bad += 1
    return 2 if bad else 0
