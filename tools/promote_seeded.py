#!/usr/bin/env python3
"""promote_seeded.py <batch log>...: turn confirmed candidates (seeded/cand/*/verified.json) into seeded/<id>/ with
patch.diff, demo.diff, README.md and meta.json, and write seeded/RESULTS.md (which checks catch which change)."""
import json
import os
import re
import shutil
import sys

ROOT = os.path.dirname(os.path.dirname(os.path.abspath(__file__)))
CAND = os.path.join(ROOT, "seeded", "cand")
OUT = os.path.join(ROOT, "seeded")


def batch_results(paths):
    """name -> {check: {"rc": int, "first": str}} from muttest output."""
    res = {}
    for p in paths:
        cur = {}
        for line in open(p, errors="replace"):
            m = re.match(r"^(C\d\d) (\{.*)$", line.strip())
            if m:
                try:
                    d = json.loads(m.group(2))
                except Exception:  # noqa: BLE001  (line cut by tail)
                    rc = re.search(r'"rc": (\d+)', m.group(2))
                    d = {"rc": int(rc.group(1)) if rc else None, "lines": re.findall(r'"(VIOLATION[^"]*|  [^"]{0,300})', m.group(2))}
                cur[m.group(1)] = d
            m = re.match(r"^RESULT (\S+) ", line)
            if m:
                name = m.group(1)
                res.setdefault(name, {})
                for c, d in cur.items():
                    what = next((l.strip() for l in d.get("lines", []) if l.startswith("  ")), "")
                    res[name][c] = {"rc": d.get("rc"), "s": d.get("s"), "first": what[:300]}
                cur = {}
    return res


def main(logs):
    results = batch_results(logs)
    rows = []
    for name in sorted(os.listdir(CAND)):
        d = os.path.join(CAND, name)
        vf = os.path.join(d, "verified.json")
        if not os.path.exists(vf):
            continue
        v = json.load(open(vf))
        det = results.get(name, {})
        row = {"id": name, "property": name.split("_")[0], "confirmed": v.get("confirmed"), "detected_by": det}
        rows.append(row)
        dst = os.path.join(OUT, name)
        if not v.get("confirmed"):
            shutil.rmtree(dst, ignore_errors=True)
            continue
        os.makedirs(dst, exist_ok=True)
        patch = os.path.join(d, "patch.rebased.diff")
        if not os.path.exists(patch):
            patch = os.path.join(d, "patch.diff")
        shutil.copy(patch, os.path.join(dst, "patch.diff"))
        shutil.copy(os.path.join(d, "demo.diff"), os.path.join(dst, "demo.diff"))
        readme = next((os.path.join(d, f) for f in os.listdir(d) if f.lower().endswith(".md")), None)
        if readme:
            shutil.copy(readme, os.path.join(dst, "README.md"))
        meta = {
            "id": name,
            "property": row["property"],
            "origin": "written by a fresh sub-agent that was given only the text of the property and its own scratch worktree of /repo",
            "apply": f"git -C /repo apply /verif/seeded/{name}/patch.diff   (undo: git -C /repo checkout -- .)",
            "verified": {k: v.get(k) for k in ("repo_head", "checked_at", "baseline_with_patch", "demo_cmd", "demo_files", "demo_with_patch", "demo_without_patch")},
            "checks": {c: {"exit": r["rc"], "seconds": r.get("s"), "first_report": r["first"]} for c, r in det.items()},
            "caught": any(r["rc"] == 1 for r in det.values()),
        }
        with open(os.path.join(dst, "meta.json"), "w") as f:
            json.dump(meta, f, indent=1)
    with open(os.path.join(OUT, "RESULTS.md"), "w") as f:
        f.write("# Seeded changes: confirmation and detection\n\n"
                "`confirmed` = verified in a scratch worktree by tools/verify_seeded.py (patch applies and builds, the 95-test baseline passes with it,\n"
                "the demonstration fails with it and passes without it). `exit` = exit code of `./check <id> --tier quick` with the patch applied to /repo\n"
                "(1 = VIOLATION reported, 0 = missed, 2 = tool error), from the frozen-tree batch runs.\n\n"
                "| change | confirmed | check: exit | first report |\n|---|---|---|---|\n")
        for r in rows:
            det = "; ".join(f"{c}: {x['rc']}" for c, x in r["detected_by"].items()) or "not run"
            first = next((x["first"] for x in r["detected_by"].values() if x["first"]), "")
            first = first.replace("|", "\\|")[:160]
            f.write(f"| {r['id']} | {'yes' if r['confirmed'] else 'no'} | {det} | {first} |\n")
    print(json.dumps({"promoted": [r["id"] for r in rows if r["confirmed"]], "not_confirmed": [r["id"] for r in rows if not r["confirmed"]],
                      "missed": [r["id"] for r in rows if r["confirmed"] and r["detected_by"] and not any(x["rc"] == 1 for x in r["detected_by"].values())]}, indent=1))


if __name__ == "__main__":
    main(sys.argv[1:])
