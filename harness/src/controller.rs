//! Deterministic step controller ("puppeteer").
//!
//! Exactly one registered thread runs at a time; control changes hands only at hook points of
//! enabled groups, lock requests and parks. The event log is therefore a total order of atomic
//! blocks and every run is reproducible from (scenario, policy, seed / schedule).

use grevm::verif::{Fields, Hooks, Val};
use rand::{Rng, SeedableRng, rngs::StdRng};
use serde_json::{Map, Value, json};
use std::{
    cell::Cell,
    collections::{HashMap, HashSet},
    sync::{Arc, Condvar, Mutex},
};

thread_local! {
    static TID: Cell<Option<usize>> = const { Cell::new(None) };
}

#[derive(Clone, Debug)]
pub struct Event {
    pub thread: String,
    pub group: u32,
    pub label: &'static str,
    pub fields: Fields,
}

impl Event {
    pub fn get(&self, key: &str) -> Option<&Val> {
        self.fields.iter().find(|(k, _)| *k == key).map(|(_, v)| v)
    }
    pub fn int(&self, key: &str) -> Option<i64> {
        match self.get(key) {
            Some(Val::I(i)) => Some(*i),
            _ => None,
        }
    }
    pub fn boolean(&self, key: &str) -> Option<bool> {
        match self.get(key) {
            Some(Val::B(b)) => Some(*b),
            _ => None,
        }
    }
    pub fn string(&self, key: &str) -> Option<&str> {
        match self.get(key) {
            Some(Val::S(s)) => Some(s),
            _ => None,
        }
    }
    pub fn to_json(&self) -> Value {
        let mut m = Map::new();
        m.insert("l".into(), json!(self.label));
        m.insert("t".into(), json!(self.thread));
        for (k, v) in &self.fields {
            // TLC cannot compare values of different types: an absent index is -1, any other
            // absent value is the string "none".
            let j = match v {
                Val::N if matches!(*k, "idx" | "tx" | "dep" | "next" | "txid") => json!(-1),
                Val::N => json!("none"),
                other => val_json(other),
            };
            m.insert((*k).into(), j);
        }
        Value::Object(m)
    }
}

pub fn val_json(v: &Val) -> Value {
    match v {
        Val::N => Value::Null,
        Val::B(b) => json!(b),
        Val::I(i) => json!(i),
        Val::S(s) => json!(s),
        Val::L(l) => Value::Array(l.iter().map(val_json).collect()),
    }
}

#[derive(Clone, Debug, PartialEq)]
enum Pending {
    Start,
    Point(&'static str),
    Lock(usize),
    Park(usize),
    Join,
}

#[derive(Clone, Debug, PartialEq)]
enum TState {
    Ready(Pending),
    Running,
    Done,
}

struct ThreadInfo {
    cv: Arc<Condvar>,
    role: String,
    parent: Option<usize>,
    state: TState,
    spin_epoch: u64,
    idle_at: Option<u64>,
    priority: u64,
}

#[derive(Clone, Debug)]
pub enum Policy {
    /// Uniform random choice among enabled threads.
    Random,
    /// PCT with `d` priority change points over an estimated run length.
    Pct { depth: usize, est_len: usize },
    /// Follow the given thread names; falls back to `Random` when the named thread is not enabled.
    Replay(Vec<String>),
    /// Follow a specification behaviour: run the named thread until it emits the named event (with
    /// the given location, if any), then the next entry; fall back to `Random` when the named
    /// thread cannot run. After the guide is exhausted: PCT.
    Guide(Vec<(String, String, Option<String>)>),
    /// Follow the given choice indices (into the sorted enabled list), then take index 0. Used by
    /// the exhaustive enumerator.
    Dfs(Vec<usize>),
}

#[derive(Clone, Debug, PartialEq)]
pub enum Verdict {
    /// Nobody is enabled although not every thread finished.
    Deadlock { parked: Vec<String>, lock_waiters: Vec<String>, idle: Vec<String> },
    StepBound,
}

pub struct Config {
    pub groups: u32,
    pub policy: Policy,
    pub seed: u64,
    pub max_steps: usize,
    /// Bound on preemptive context switches for `Dfs` (None = unbounded).
    pub preemption_bound: Option<usize>,
}

struct State {
    threads: Vec<ThreadInfo>,
    current: Option<usize>,
    log: Vec<Event>,
    locks: HashMap<usize, usize>,
    slots: HashMap<usize, (usize, bool)>,
    next_ticket: u64,
    ticket_parent: HashMap<u64, usize>,
    registered: HashSet<u64>,
    epoch: u64,
    rng: StdRng,
    steps: usize,
    verdict: Option<Verdict>,
    /// Thread chosen at every decision (for replay files).
    schedule: Vec<String>,
    /// For Dfs: (number of enabled alternatives, chosen index) at every decision with > 1 choice.
    choices: Vec<(usize, usize)>,
    replay_pos: usize,
    diverged: bool,
    change_points: Vec<usize>,
    preemptions: usize,
    guide_pos: usize,
    last_running: Option<usize>,
    slot_names: HashMap<usize, String>,
    /// Set after a fatal verdict without handler: every hook becomes a no-op so that the stuck
    /// threads can leave (probe bodies poll `Controller::aborted`).
    free_run: bool,
}

pub struct Controller {
    state: Mutex<State>,
    cv: Condvar,
    cfg: Config,
    fatal: Mutex<Option<Box<dyn Fn(&Verdict, &RunRecord) + Send + Sync>>>,
}

/// Everything a finished (or aborted) run leaves behind.
#[derive(Clone, Debug)]
pub struct RunRecord {
    pub events: Vec<Event>,
    pub schedule: Vec<String>,
    pub choices: Vec<(usize, usize)>,
    pub steps: usize,
    pub diverged: bool,
    pub guide_pos: usize,
    pub verdict: Option<Verdict>,
    pub roles: Vec<String>,
}

/// Read-only outcomes that must not keep a polling worker awake.
fn is_mutation(label: &str, fields: &Fields) -> bool {
    let get = |k: &str| fields.iter().find(|(kk, _)| *kk == k).map(|(_, v)| v.clone());
    match label {
        "W_Loop" | "F_Loop" | "C_Loop" | "C_FinLoad" | "F_ValLoad" | "F_Pred" | "C_Pred" |
        "F_Lock" | "F_Decide" | "V_Notify" | "E_HeadCheck" | "V_Scan" | "R_Read" | "VC_Load" |
        "VC_Get" | "VC_Claim" | "XF_AdvExec" | "XF_PubLoad1" | "XF_PubLoad2" | "XF_CurLoad" |
        "XF_CurExec" | "XF_CurReload" | "T_LowerLoad" | "T_UnconfLoad" | "DN_Load" |
        "HE_Snapshot" | "CB_Lookup" | "CS_Lookup" | "CS_Known" | "M_Post" | "M_Path" | "TW_Loop" |
        "TC_Poll" | "W_LoopRead" | "W_Check" => false,
        "W_ValClaim" => get("idx") != Some(Val::N),
        "D_Next" => {
            // `next()` performs a fetch_add whenever the loaded index was below the block size;
            // the reported index is the value after the call.
            get("tx") != Some(Val::N) || !matches!(get("index"), Some(Val::I(_)))
        }
        "VC_Cas" => get("ok") == Some(Val::B(true)),
        "XF_AdvMax" => true,
        _ => true,
    }
}

impl Controller {
    pub fn new(cfg: Config) -> Arc<Self> {
        let mut rng = StdRng::seed_from_u64(cfg.seed);
        let mut change_points = Vec::new();
        if let Policy::Pct { depth, est_len } = &cfg.policy {
            for _ in 0..*depth {
                change_points.push(rng.random_range(1..(*est_len).max(2)));
            }
        }
        Arc::new(Self {
            state: Mutex::new(State {
                threads: Vec::new(),
                current: None,
                log: Vec::new(),
                locks: HashMap::new(),
                slots: HashMap::new(),
                next_ticket: 1,
                ticket_parent: HashMap::new(),
                registered: HashSet::new(),
                epoch: 0,
                rng,
                steps: 0,
                verdict: None,
                schedule: Vec::new(),
                choices: Vec::new(),
                replay_pos: 0,
                diverged: false,
                change_points,
                preemptions: 0,
                guide_pos: 0,
                last_running: None,
                slot_names: HashMap::new(),
                free_run: false,
            }),
            cv: Condvar::new(),
            cfg,
            fatal: Mutex::new(None),
        })
    }

    pub fn on_fatal(&self, f: impl Fn(&Verdict, &RunRecord) + Send + Sync + 'static) {
        *self.fatal.lock().unwrap() = Some(Box::new(f));
    }

    /// Register the calling thread as a root of the run (`main`, or `m0`, `m1` … for racing
    /// entry-point callers). Roots registered while another root runs wait for their first turn.
    pub fn register_root(&self, role: &str) {
        let mut st = self.state.lock().unwrap();
        let tid = st.threads.len();
        let priority = st.rng.random();
        st.threads.push(ThreadInfo {
            cv: Arc::new(Condvar::new()),
            role: role.to_owned(),
            parent: None,
            state: TState::Ready(Pending::Start),
            spin_epoch: 0,
            idle_at: None,
            priority,
        });
        TID.with(|t| t.set(Some(tid)));
        self.cv.notify_all();
        let own = st.threads[tid].cv.clone();
        while st.current != Some(tid) && !st.free_run {
            st = own.wait(st).unwrap();
        }
        st.threads[tid].state = TState::Running;
    }

    /// Called by the (uncontrolled) harness thread once every root has registered.
    pub fn start(&self) {
        let mut st = self.state.lock().unwrap();
        self.schedule(&mut st);
    }

    /// Register the calling thread as the only root and start running at once.
    pub fn register_single_root(&self, role: &str) {
        let mut st = self.state.lock().unwrap();
        let tid = st.threads.len();
        let priority = st.rng.random();
        st.threads.push(ThreadInfo {
            cv: Arc::new(Condvar::new()),
            role: role.to_owned(),
            parent: None,
            state: TState::Running,
            spin_epoch: 0,
            idle_at: None,
            priority,
        });
        TID.with(|t| t.set(Some(tid)));
        st.current = Some(tid);
        st.last_running = Some(tid);
    }

    pub fn aborted(&self) -> bool {
        self.state.lock().unwrap().free_run
    }

    /// Schedule point of the harness itself (probe bodies, database wrappers): always yields.
    pub fn user_point(&self, label: &'static str) {
        if let Some(tid) = Self::tid() {
            self.yield_with(tid, Pending::Point(label));
        }
    }

    pub fn user_emit(&self, label: &'static str, fields: Fields) {
        self.emit(0x8000_0000, label, fields);
    }

    /// Block until `n` roots are registered and waiting for their first turn.
    pub fn wait_roots(&self, n: usize) {
        let mut st = self.state.lock().unwrap();
        while st
            .threads
            .iter()
            .filter(|t| t.parent.is_none() && t.state == TState::Ready(Pending::Start))
            .count() <
            n
        {
            st = self.cv.wait(st).unwrap();
        }
    }

    /// The calling root has finished; hand control on.
    pub fn finish_root(&self) {
        self.thread_end(false);
    }

    pub fn record(&self) -> RunRecord {
        let st = self.state.lock().unwrap();
        Self::record_of(&st)
    }

    fn record_of(st: &State) -> RunRecord {
        // Replace process addresses of wait slots by the role that registered them (a slot may be
        // notified before its owner registers, so this is done once the run is over).
        let events = st
            .log
            .iter()
            .map(|e| {
                let mut e = e.clone();
                for (k, v) in e.fields.iter_mut() {
                    if *k == "slot" &&
                        let Val::I(a) = v
                    {
                        *v = st
                            .slot_names
                            .get(&(*a as usize))
                            .map_or(Val::S("unregistered".into()), |n| Val::S(n.clone()));
                    }
                }
                e
            })
            .collect();
        RunRecord {
            events,
            schedule: st.schedule.clone(),
            choices: st.choices.clone(),
            steps: st.steps,
            diverged: st.diverged,
            guide_pos: st.guide_pos,
            verdict: st.verdict.clone(),
            roles: st.threads.iter().map(|t| t.role.clone()).collect(),
        }
    }

    fn tid() -> Option<usize> {
        TID.with(|t| t.get())
    }

    fn enabled(&self, st: &State, tid: usize) -> bool {
        let t = &st.threads[tid];
        match &t.state {
            TState::Ready(p) => match p {
                Pending::Start => true,
                Pending::Point(_) => t.idle_at != Some(st.epoch),
                Pending::Lock(id) => !st.locks.contains_key(id),
                Pending::Park(slot) => st.slots.get(slot).is_some_and(|s| s.1),
                Pending::Join => st
                    .threads
                    .iter()
                    .all(|c| c.parent != Some(tid) || c.state == TState::Done),
            },
            _ => false,
        }
    }

    /// Pick the next thread to run. Called with the state lock held by a thread that has just
    /// given up control.
    fn schedule(&self, st: &mut State) {
        st.current = None;
        if st.verdict.is_some() {
            return;
        }
        let enabled: Vec<usize> = (0..st.threads.len()).filter(|&t| self.enabled(st, t)).collect();
        if enabled.is_empty() {
            if st.threads.iter().all(|t| t.state == TState::Done) {
                self.cv.notify_all();
                return;
            }
            let name = |t: &ThreadInfo| t.role.clone();
            let verdict = Verdict::Deadlock {
                parked: st
                    .threads
                    .iter()
                    .filter(|t| matches!(t.state, TState::Ready(Pending::Park(_))))
                    .map(name)
                    .collect(),
                lock_waiters: st
                    .threads
                    .iter()
                    .filter(|t| matches!(t.state, TState::Ready(Pending::Lock(_))))
                    .map(name)
                    .collect(),
                idle: st
                    .threads
                    .iter()
                    .filter(|t| matches!(t.state, TState::Ready(Pending::Point(_))))
                    .map(name)
                    .collect(),
            };
            self.fail(st, verdict);
            return;
        }
        st.steps += 1;
        if st.steps > self.cfg.max_steps {
            self.fail(st, Verdict::StepBound);
            return;
        }
        let pick = if enabled.len() == 1 {
            enabled[0]
        } else {
            self.choose(st, &enabled)
        };
        if let Some(prev) = st.last_running &&
            prev != pick &&
            enabled.contains(&prev)
        {
            st.preemptions += 1;
        }
        st.last_running = Some(pick);
        let role = st.threads[pick].role.clone();
        st.schedule.push(role);
        st.current = Some(pick);
        st.threads[pick].cv.notify_one();
    }

    fn choose(&self, st: &mut State, enabled: &[usize]) -> usize {
        match &self.cfg.policy {
            Policy::Random => enabled[st.rng.random_range(0..enabled.len())],
            Policy::Pct { .. } => {
                let step = st.steps;
                if st.change_points.contains(&step) &&
                    let Some(&top) = enabled.iter().max_by_key(|&&t| st.threads[t].priority)
                {
                    let lowest = st.threads.iter().map(|t| t.priority).min().unwrap_or(1);
                    st.threads[top].priority = lowest.saturating_sub(1 + step as u64);
                }
                *enabled.iter().max_by_key(|&&t| st.threads[t].priority).unwrap()
            }
            Policy::Replay(names) => {
                // The schedule lists the thread chosen at *every* step (including forced ones).
                let pos = st.schedule.len();
                if let Some(name) = names.get(pos) &&
                    let Some(&t) = enabled.iter().find(|&&t| &st.threads[t].role == name)
                {
                    t
                } else {
                    if pos < names.len() {
                        st.diverged = true;
                    }
                    enabled[st.rng.random_range(0..enabled.len())]
                }
            }
            Policy::Guide(guide) => {
                // skip entries of threads that have already finished
                while let Some((name, _, _)) = guide.get(st.guide_pos) &&
                    st.threads.iter().any(|t| &t.role == name && t.state == TState::Done)
                {
                    st.guide_pos += 1;
                }
                if let Some((name, _, _)) = guide.get(st.guide_pos) {
                    if let Some(&t) = enabled.iter().find(|&&t| &st.threads[t].role == name) {
                        return t;
                    }
                    if !st.diverged && std::env::var_os("VH_DEBUG").is_some() {
                        eprintln!(
                            "guide diverged at entry {} ({name}): enabled {:?}",
                            st.guide_pos,
                            enabled.iter().map(|&t| st.threads[t].role.clone()).collect::<Vec<_>>()
                        );
                    }
                    st.diverged = true;
                    return enabled[st.rng.random_range(0..enabled.len())];
                }
                *enabled.iter().max_by_key(|&&t| st.threads[t].priority).unwrap()
            }
            Policy::Dfs(prefix) => {
                let k = st.choices.len();
                // Under a preemption bound, once exhausted only non-preemptive choices remain.
                let mut options: Vec<usize> = enabled.to_vec();
                if let Some(bound) = self.cfg.preemption_bound &&
                    st.preemptions >= bound &&
                    let Some(prev) = st.last_running &&
                    enabled.contains(&prev)
                {
                    options = vec![prev];
                }
                // Prefer continuing the running thread as alternative 0 (fewest switches first).
                if let Some(prev) = st.last_running &&
                    let Some(pos) = options.iter().position(|&t| t == prev)
                {
                    options.swap(0, pos);
                    options[1..].sort_unstable();
                }
                if options.len() == 1 {
                    return options[0];
                }
                let idx = prefix.get(k).copied().unwrap_or(0).min(options.len() - 1);
                st.choices.push((options.len(), idx));
                options[idx]
            }
        }
    }

    fn fail(&self, st: &mut State, verdict: Verdict) {
        st.verdict = Some(verdict.clone());
        let record = Self::record_of(st);
        if let Some(f) = self.fatal.lock().unwrap().as_ref() {
            f(&verdict, &record);
            std::process::exit(3);
        }
        // Without a handler: release every thread; probe bodies poll `aborted()`.
        st.free_run = true;
        st.current = None;
        self.cv.notify_all();
        for t in &st.threads {
            t.cv.notify_all();
        }
    }

    /// Give up control with `pending`, wait to be chosen again.
    fn yield_with(&self, tid: usize, pending: Pending) {
        let mut st = self.state.lock().unwrap();
        if st.free_run {
            return;
        }
        debug_assert_eq!(st.current, Some(tid), "only the running thread may yield");
        st.threads[tid].state = TState::Ready(pending);
        self.schedule(&mut st);
        let own = st.threads[tid].cv.clone();
        while st.current != Some(tid) && !st.free_run {
            st = own.wait(st).unwrap();
        }
        st.threads[tid].state = TState::Running;
    }
}

impl Hooks for Controller {
    fn point(&self, group: u32, label: &'static str) {
        if group & self.cfg.groups == 0 {
            return;
        }
        if let Some(tid) = Self::tid() {
            self.yield_with(tid, Pending::Point(label));
        }
    }

    fn emit(&self, group: u32, label: &'static str, fields: Fields) {
        let Some(tid) = Self::tid() else { return };
        let mut st = self.state.lock().unwrap();
        if is_mutation(label, &fields) {
            st.epoch += 1;
        }
        let thread = st.threads[tid].role.clone();
        if let Policy::Guide(guide) = &self.cfg.policy &&
            let Some((gt, gl, gloc)) = guide.get(st.guide_pos) &&
            *gt == thread &&
            gl == label &&
            gloc.as_ref().is_none_or(|want| {
                fields.iter().any(|(k, v)| *k == "loc" && matches!(v, Val::S(have) if have == want))
            })
        {
            st.guide_pos += 1;
        }
        if label == "N_Register" &&
            let Some((_, Val::I(slot))) = fields.iter().find(|(k, _)| *k == "slot")
        {
            st.slot_names.insert(*slot as usize, thread.clone());
        }
        st.log.push(Event { thread, group, label, fields });
    }

    fn spawn_ticket(&self) -> u64 {
        let Some(tid) = Self::tid() else { return 0 };
        let mut st = self.state.lock().unwrap();
        let ticket = st.next_ticket;
        st.next_ticket += 1;
        st.ticket_parent.insert(ticket, tid);
        ticket
    }

    fn await_registered(&self, ticket: u64) {
        if ticket == 0 {
            return;
        }
        let mut st = self.state.lock().unwrap();
        while !st.registered.contains(&ticket) {
            st = self.cv.wait(st).unwrap();
        }
    }

    fn thread_begin(&self, role: String, ticket: u64) {
        if ticket == 0 {
            return;
        }
        let mut st = self.state.lock().unwrap();
        let tid = st.threads.len();
        let parent = st.ticket_parent.get(&ticket).copied();
        let priority = st.rng.random();
        st.threads.push(ThreadInfo {
            cv: Arc::new(Condvar::new()),
            role,
            parent,
            state: TState::Ready(Pending::Start),
            spin_epoch: 0,
            idle_at: None,
            priority,
        });
        TID.with(|t| t.set(Some(tid)));
        st.registered.insert(ticket);
        self.cv.notify_all();
        let own = st.threads[tid].cv.clone();
        while st.current != Some(tid) && !st.free_run {
            st = own.wait(st).unwrap();
        }
        st.threads[tid].state = TState::Running;
    }

    fn thread_end(&self, panicking: bool) {
        let Some(tid) = Self::tid() else { return };
        let mut st = self.state.lock().unwrap();
        if panicking {
            let thread = st.threads[tid].role.clone();
            st.epoch += 1;
            st.log.push(Event { thread, group: 1, label: "T_Panic", fields: vec![] });
        }
        st.threads[tid].state = TState::Done;
        // Locks are released by guard drops during unwinding before this point.
        TID.with(|t| t.set(None));
        st.epoch += 1;
        if st.current == Some(tid) && !st.free_run {
            self.schedule(&mut st);
        }
    }

    fn blocking_begin(&self) {
        if let Some(tid) = Self::tid() {
            self.yield_with(tid, Pending::Join);
        }
    }

    fn blocking_end(&self) {}

    fn lock_request(&self, group: u32, id: usize) {
        let Some(tid) = Self::tid() else { return };
        {
            let mut st = self.state.lock().unwrap();
            if group & self.cfg.groups == 0 && !st.locks.contains_key(&id) {
                st.locks.insert(id, tid);
                return;
            }
        }
        self.yield_with(tid, Pending::Lock(id));
        let mut st = self.state.lock().unwrap();
        if !st.free_run {
            debug_assert!(!st.locks.contains_key(&id));
            st.locks.insert(id, tid);
        }
    }

    fn lock_released(&self, id: usize) {
        // A release only matters to lock waiters (enabled through the lock table), so it does not
        // count as a state change that would keep a polling thread awake.
        let mut st = self.state.lock().unwrap();
        st.locks.remove(&id);
    }

    fn slot_register(&self, slot: usize) {
        let Some(tid) = Self::tid() else { return };
        let mut st = self.state.lock().unwrap();
        st.slots.insert(slot, (tid, false));
    }

    fn park(&self, slot: usize) {
        let Some(tid) = Self::tid() else { return };
        self.yield_with(tid, Pending::Park(slot));
        let mut st = self.state.lock().unwrap();
        if let Some(s) = st.slots.get_mut(&slot) {
            s.1 = false;
        }
        st.epoch += 1;
    }

    fn unpark(&self, slot: usize) {
        let mut st = self.state.lock().unwrap();
        if let Some(s) = st.slots.get_mut(&slot) {
            s.1 = true;
        }
        st.epoch += 1;
    }

    fn spin_begin(&self) {
        let Some(tid) = Self::tid() else { return };
        let mut st = self.state.lock().unwrap();
        let epoch = st.epoch;
        st.threads[tid].spin_epoch = epoch;
    }

    fn spin_end(&self) {
        let Some(tid) = Self::tid() else { return };
        let mut st = self.state.lock().unwrap();
        if st.threads[tid].spin_epoch == st.epoch {
            let epoch = st.epoch;
            st.threads[tid].idle_at = Some(epoch);
        }
    }

    fn controls_current_thread(&self) -> bool {
        Self::tid().is_some()
    }
}
