//! C10 (sequential part): ParallelState as a drop-in for revm's State.
//! The same history of real transactions (create, destroy, re-create, empty-touch, storage churn),
//! balance increments / drains, transition merges and bundle extractions is applied to a
//! `ParallelState` and to a `revm_database::State`; after every step the results, the readable
//! values, the transitions and (at extraction) the bundles are compared.

use crate::sched::bundle_diff;
use grevm::{ParallelState, ParallelTakeBundle, test_utils::common::{account, storage::InMemoryDB}};
use rand::{Rng, SeedableRng, rngs::StdRng};
use revm::{Context, Database, DatabaseCommit, ExecuteEvm, MainBuilder, MainContext};
use revm_context::{BlockEnv, CfgEnv, TxEnv};
use revm_database::{DatabaseCommitExt, PlainAccount, State, StateBuilder, states::bundle_state::BundleRetention};
use revm_primitives::{Address, Bytes, HashMap, KECCAK_EMPTY, TxKind, U256, alloy_primitives::U160, hardfork::SpecId, keccak256};
use revm_state::{AccountInfo, Bytecode};
use serde_json::{Value, json};
use std::sync::Arc;

fn a(n: u64) -> Address {
    Address::from(U160::from(880_000 + n))
}
const STORE: u64 = 1; // SSTORE(calldata[0..32]) := calldata[32..64]
const DESTROYER: u64 = 2; // selfdestruct to RCV, has storage
const FACTORY: u64 = 3; // CREATE2(salt 0) of calldata
const EMPTY: u64 = 4; // existing empty account
const RCV: u64 = 5;

fn store_code() -> Vec<u8> {
    vec![0x60, 0x20, 0x35, 0x5f, 0x35, 0x55, 0x00]
}
fn destroy_code() -> Vec<u8> {
    let mut c = vec![0x73];
    c.extend_from_slice(a(RCV).as_slice());
    c.push(0xff);
    c
}
fn factory_code() -> Vec<u8> {
    vec![0x36, 0x5f, 0x5f, 0x37, 0x5f, 0x36, 0x5f, 0x5f, 0xf5, 0x00]
}
/// init code: SSTORE(1, 7); return the self-destructing runtime
fn child_init() -> Vec<u8> {
    let rt = destroy_code();
    let mut c = vec![0x60, 0x07, 0x60, 0x01, 0x55, 0x60, rt.len() as u8, 0x60, 0x0f, 0x5f, 0x39, 0x60, rt.len() as u8, 0x5f, 0xf3];
    c.extend_from_slice(&rt);
    c
}
fn child_address() -> Address {
    let init_hash = keccak256(child_init());
    let mut buf = vec![0xff];
    buf.extend_from_slice(a(FACTORY).as_slice());
    buf.extend_from_slice(&[0u8; 32]);
    buf.extend_from_slice(init_hash.as_slice());
    Address::from_slice(&keccak256(buf)[12..])
}

fn database() -> InMemoryDB {
    let mut accounts = account::mock_block_accounts(4);
    let mut codes: HashMap<revm_primitives::B256, Bytecode> = HashMap::default();
    let mut contract = |accounts: &mut HashMap<Address, PlainAccount>, n: u64, code: Vec<u8>, slots: Vec<(u64, u64)>, bal: u64| {
        let bc = Bytecode::new_raw(code.into());
        codes.insert(bc.hash_slow(), bc.clone());
        accounts.insert(a(n), PlainAccount {
            info: AccountInfo { nonce: 1, balance: U256::from(bal), code_hash: bc.hash_slow(), code: Some(bc), ..Default::default() },
            storage: slots.into_iter().map(|(k, v)| (U256::from(k), U256::from(v))).collect(),
        });
    };
    contract(&mut accounts, STORE, store_code(), vec![(0, 11), (1, 12)], 0);
    contract(&mut accounts, DESTROYER, destroy_code(), vec![(0, 21), (3, 23)], 9);
    contract(&mut accounts, FACTORY, factory_code(), vec![], 0);
    accounts.insert(a(EMPTY), PlainAccount {
        info: AccountInfo { nonce: 0, balance: U256::ZERO, code_hash: KECCAK_EMPTY, code: None, ..Default::default() },
        storage: Default::default(),
    });
    InMemoryDB::new(accounts, codes, HashMap::default())
}

#[derive(Clone, Debug)]
pub enum Step {
    /// kind index into the transaction pool, sender index
    Tx(usize, usize),
    Increment(u64, u128),
    Drain(u64),
    Merge(u8),
    Take(bool),
    /// the caller persists the changesets and keeps the post state: reverts detached from the held bundle
    DetachReverts,
}

const TX_KINDS: usize = 9;

fn tx_of(kind: usize, sender: usize, nonce: u64) -> TxEnv {
    let word = |v: u64| { let mut w = [0u8; 32]; w[24..].copy_from_slice(&v.to_be_bytes()); w };
    let (to, data, value): (TxKind, Vec<u8>, u64) = match kind {
        0 => (TxKind::Call(a(STORE)), [word(0), word(99)].concat(), 0),           // overwrite existing slot
        1 => (TxKind::Call(a(STORE)), [word(5), word(55)].concat(), 0),           // new slot
        2 => (TxKind::Call(a(STORE)), [word(1), word(0)].concat(), 0),            // clear slot
        3 => (TxKind::Call(a(DESTROYER)), vec![], 0),                             // destroy pre-existing contract
        4 => (TxKind::Call(a(FACTORY)), child_init(), 0),                         // create2 child (with storage)
        5 => (TxKind::Call(child_address()), vec![], 0),                          // destroy the child (if it exists)
        6 => (TxKind::Call(a(EMPTY)), vec![], 0),                                 // touch an existing empty account
        8 => (TxKind::Call(a(DESTROYER)), vec![], 4),                             // value to the destroyer (re-creates the address once it is gone)
        _ => (TxKind::Call(a(RCV)), vec![], 3),                                   // plain value transfer
    };
    TxEnv {
        caller: account::mock_eoa_address(sender),
        kind: to,
        data: Bytes::from(data),
        value: U256::from(value),
        gas_limit: 400_000,
        gas_price: 1,
        nonce,
        ..Default::default()
    }
}

fn retention(k: u8) -> BundleRetention {
    if k == 0 { BundleRetention::Reverts } else { BundleRetention::PlainState }
}

fn universe() -> Vec<(Address, Vec<u64>)> {
    vec![
        (a(STORE), vec![0, 1, 5]), (a(DESTROYER), vec![0, 3]), (a(FACTORY), vec![]), (a(EMPTY), vec![0]),
        (a(RCV), vec![]), (child_address(), vec![0, 1]), (account::mock_eoa_address(0), vec![]),
        (account::mock_eoa_address(1), vec![]), (account::MINER_ADDRESS, vec![]),
    ]
}

fn readable<DB: Database>(db: &mut DB) -> Vec<String>
where
    DB::Error: std::fmt::Debug,
{
    let mut out = Vec::new();
    for (addr, slots) in universe() {
        // an error of the state object is an observable like any other value
        let info = match db.basic(addr) {
            Ok(i) => i,
            Err(e) => {
                out.push(format!("{addr:x}: error {e:?}"));
                continue;
            }
        };
        out.push(format!("{addr:x}: {}", grevm::verif::digest::info(info.as_ref())));
        if let Some(i) = &info &&
            i.code_hash != KECCAK_EMPTY
        {
            out.push(format!("{addr:x} code {:?}", db.code_by_hash(i.code_hash).map(|c| c.hash_slow())));
        }
        for s in slots {
            match db.storage(addr, U256::from(s)) {
                Ok(v) => out.push(format!("{addr:x}[{s}] = {v:x}")),
                Err(e) => out.push(format!("{addr:x}[{s}] = error {e:?}")),
            }
        }
    }
    out
}

fn cfg(spec: SpecId) -> CfgEnv {
    CfgEnv::new_with_spec(spec)
}

fn transact<DB: Database + DatabaseCommit>(db: &mut DB, spec: SpecId, tx: TxEnv) -> String
where
    DB::Error: std::fmt::Debug,
{
    let mut evm = Context::mainnet()
        .with_db(&mut *db)
        .with_cfg(cfg(spec))
        .with_block(BlockEnv { beneficiary: account::MINER_ADDRESS, ..Default::default() })
        .build_mainnet();
    match evm.transact(tx) {
        Ok(rs) => {
            let d = format!("{:?}", rs.result);
            drop(evm);
            db.commit(rs.state);
            d
        }
        Err(e) => format!("error {e:?}"),
    }
}

pub struct HistResult {
    pub steps: usize,
    pub mismatch: Option<String>,
    /// for increment / drain steps: what revm State held for the target before the step
    pub target_state: String,
}

/// Apply one history to both implementations.
pub fn run_history(steps: &[Step], spec: SpecId, prepopulated: bool) -> HistResult {
    let db = Arc::new(database());
    let mut par: ParallelState<Arc<InMemoryDB>> = ParallelState::new(db.clone(), true, false);
    let mut seq: State<_> = StateBuilder::new().with_bundle_update().with_database_ref(db.clone()).build();
    if prepopulated {
        // a previous block already left something in the bundle (non-empty bundle path)
        let tx = tx_of(7, 3, 1);
        let x = transact(&mut par, spec, tx.clone());
        let y = transact(&mut seq, spec, tx);
        assert_eq!(x, y);
        par.merge_transitions(BundleRetention::Reverts);
        seq.merge_transitions(BundleRetention::Reverts);
    }
    let mut nonces = [1u64; 4];
    if prepopulated {
        nonces[3] = 2;
    }
    for (i, st) in steps.iter().enumerate() {
        let target_state = match st {
            Step::Increment(n, _) | Step::Drain(n) => match seq.basic(a(*n)).unwrap() {
                None => "absent".to_owned(),
                Some(i) if i.is_empty() => "empty".to_owned(),
                Some(_) => "exists".to_owned(),
            },
            _ => "-".to_owned(),
        };
        let fail = |what: String| HistResult { steps: i, mismatch: Some(format!("step {i} {st:?}: {what}")), target_state: target_state.clone() };
        match st {
            Step::Tx(kind, sender) => {
                let tx = tx_of(*kind, *sender, nonces[*sender]);
                let x = transact(&mut par, spec, tx.clone());
                let y = transact(&mut seq, spec, tx);
                if x != y {
                    return fail(format!("transaction results differ: {x} vs {y}"));
                }
                if !x.starts_with("error") {
                    nonces[*sender] += 1;
                }
            }
            Step::Increment(n, amt) => {
                let x = par.increment_balances([(a(*n), *amt)]);
                let y = seq.increment_balances([(a(*n), *amt)]);
                if x.is_ok() != y.is_ok() {
                    return fail("increment_balances result differs".into());
                }
            }
            Step::Drain(n) => {
                let x = par.drain_balances([a(*n)]).ok();
                let y = seq.drain_balances([a(*n)]).ok();
                if x != y {
                    return fail(format!("drain_balances differs: {x:?} vs {y:?}"));
                }
            }
            Step::Merge(k) => {
                par.merge_transitions(retention(*k));
                seq.merge_transitions(retention(*k));
            }
            Step::DetachReverts => {
                let x = par.bundle_state.take_all_reverts();
                let y = seq.bundle_state.take_all_reverts();
                if x != y {
                    return fail("detached reverts differ".into());
                }
            }
            Step::Take(parallel) => {
                seq.merge_transitions(BundleRetention::Reverts);
                let x = if *parallel {
                    par.parallel_take_bundle(BundleRetention::Reverts)
                } else {
                    par.merge_transitions(BundleRetention::Reverts);
                    par.take_bundle()
                };
                let y = seq.take_bundle();
                if let Some(d) = bundle_diff(&y, &x) {
                    return fail(format!("extracted bundle differs: {d}"));
                }
            }
        }
        if par.transition_state != seq.transition_state {
            let (p, q) = (par.transition_state.clone().unwrap_or_default().transitions, seq.transition_state.clone().unwrap_or_default().transitions);
            let mut d = Vec::new();
            for k in p.keys().chain(q.keys()) {
                if p.get(k) != q.get(k) {
                    let show = |t: Option<&revm_database::TransitionAccount>| t.map(|t| format!(
                        "info={} status={:?} prev={} prev_status={:?} storage={} destroyed={}",
                        grevm::verif::digest::info(t.info.as_ref()), t.status, grevm::verif::digest::info(t.previous_info.as_ref()),
                        t.previous_status, t.storage.len(), t.storage_was_destroyed));
                    d.push(format!("{k:x}: ParallelState {:?} / revm State {:?}", show(p.get(k)), show(q.get(k))));
                }
            }
            d.sort();
            d.dedup();
            return fail(format!("transitions differ: {}", d.join(" ; ")));
        }
        let (x, y) = (readable(&mut par), readable(&mut seq));
        if x != y {
            let d: Vec<_> = x.iter().zip(y.iter()).filter(|(p, q)| p != q).take(3).collect();
            return fail(format!("readable values differ: {d:?}"));
        }
    }
    // final extraction, both builders
    seq.merge_transitions(BundleRetention::Reverts);
    let (x, y) = (par.parallel_take_bundle(BundleRetention::Reverts), seq.take_bundle());
    if let Some(d) = bundle_diff(&y, &x) {
        return HistResult { steps: steps.len(), mismatch: Some(format!("final: final bundle differs: {d}")), target_state: "-".into() };
    }
    HistResult { steps: steps.len(), mismatch: None, target_state: "-".into() }
}

fn gen_history(rng: &mut StdRng, len: usize) -> Vec<Step> {
    (0..len)
        .map(|_| match rng.random_range(0..13) {
            12 => Step::DetachReverts,
            0..=7 => Step::Tx(rng.random_range(0..TX_KINDS), rng.random_range(0..3)),
            8 => Step::Increment([STORE, RCV, EMPTY, DESTROYER][rng.random_range(0..4)], rng.random_range(1..50)),
            9 => Step::Drain([STORE, RCV, DESTROYER][rng.random_range(0..3)]),
            10 => Step::Merge(rng.random_range(0..2)),
            _ => Step::Take(rng.random_bool(0.5)),
        })
        .collect()
}

pub fn cmd(a: &Value) -> Value {
    let runs = a["max_runs"].as_u64().unwrap_or(300) as usize;
    let seed = a["seed"].as_u64().unwrap_or(1);
    let mut rng = StdRng::seed_from_u64(seed);
    let specs = [SpecId::SHANGHAI, SpecId::CANCUN, SpecId::PRAGUE];
    let mut violations = Vec::new();
    let mut distinct = std::collections::HashSet::new();
    let mut steps = 0usize;
    let mut sample = Value::Null;
    let mut kinds = std::collections::BTreeMap::new();
    let mut classes: std::collections::BTreeMap<String, usize> = Default::default();
    // every ordered pair and triple of transaction kinds first (edge coverage of the account-status machine)
    let mut histories: Vec<Vec<Step>> = Vec::new();
    for x in 0..TX_KINDS {
        for y in 0..TX_KINDS {
            histories.push(vec![Step::Tx(x, 0), Step::Tx(y, 1), Step::Take(true), Step::Tx(x, 2), Step::Tx(y, 0)]);
        }
    }
    for x in [3usize, 4, 5, 6] {
        for y in [3usize, 4, 5, 6] {
            for z in [0usize, 3, 4, 5] {
                histories.push(vec![Step::Tx(x, 0), Step::Merge(0), Step::Tx(y, 1), Step::Tx(z, 2), Step::Drain(DESTROYER), Step::Increment(EMPTY, 7)]);
            }
        }
    }
    // consecutive blocks on one state object whose caller detaches the reverts in between
    for x in 0..TX_KINDS {
        for y in [0usize, 1, 2, 3, 5, 8] {
            histories.push(vec![Step::Tx(x, 0), Step::Merge(0), Step::DetachReverts, Step::Tx(y, 1), Step::Take(true)]);
        }
    }
    while histories.len() < runs {
        let len = rng.random_range(3..9);
        histories.push(gen_history(&mut rng, len));
    }
    for (k, h) in histories.iter().enumerate() {
        let spec = specs[k % specs.len()];
        let prepop = k % 5 == 4;
        let r = run_history(h, spec, prepop);
        steps += r.steps;
        distinct.insert(format!("{h:?}"));
        for s in h {
            *kinds.entry(format!("{s:?}").split('(').next().unwrap().to_owned()).or_insert(0usize) += 1;
        }
        if sample.is_null() {
            sample = json!({"history": format!("{h:?}"), "spec": format!("{spec:?}"), "prepopulated_bundle": prepop});
        }
        if let Some(m) = r.mismatch {
            // one sample per class of mismatch: (step kind, what differs, target existed or not)
            let step = h.get(r.steps).map_or("final".to_owned(), |s| format!("{s:?}").split('(').next().unwrap().to_owned());
            let what = m.split(": ").nth(1).unwrap_or("").split(':').next().unwrap_or("").to_owned();
            let class = format!("{step}/{what}/{}", r.target_state);
            let n = classes.entry(class.clone()).or_insert(0usize);
            *n += 1;
            if *n == 1 {
                violations.push(json!({"class": class, "what": m.chars().take(1500).collect::<String>(), "history": format!("{h:?}"),
                    "spec": format!("{spec:?}"), "prepopulated": prepop}));
            }
        }
    }
    json!({"runs": histories.len(), "distinct": distinct.len(), "steps": steps, "violations": violations, "sample": sample,
           "step_kinds": kinds, "classes": classes})
}


// ---------------------------------------------------------------------------------------------
// Cases of spec/rules/Lifecycle.tla: one account through destroy / fund / create / store sequences.
// revm State must agree with the rule (the rule is bound to the EVM), ParallelState with both.

fn actor_runtime() -> Vec<u8> {
    // mode = calldata[0x40]; 2: SELFDESTRUCT(RCV); 1: SSTORE(calldata[0], calldata[0x20]); else STOP
    let mut c = vec![0x60, 0x40, 0x35, 0x80, 0x60, 0x02, 0x14, 0x60, 0x11, 0x57, 0x60, 0x01, 0x14, 0x60, 0x28, 0x57, 0x00, 0x5b, 0x73];
    c.extend_from_slice(a(RCV).as_slice());
    c.push(0xff);
    assert_eq!(c.len(), 40);
    c.extend_from_slice(&[0x5b, 0x60, 0x20, 0x35, 0x60, 0x00, 0x35, 0x55, 0x00]);
    c
}
/// init code: SSTORE(1, 7); return the actor runtime
fn actor_init() -> Vec<u8> {
    let rt = actor_runtime();
    let mut c = vec![0x60, 0x07, 0x60, 0x01, 0x55, 0x60, rt.len() as u8, 0x60, 0x11, 0x60, 0x00, 0x39, 0x60, rt.len() as u8, 0x60, 0x00, 0xf3];
    assert_eq!(c.len(), 17);
    c.extend_from_slice(&rt);
    c
}
fn actor_address() -> Address {
    let mut buf = vec![0xff];
    buf.extend_from_slice(a(FACTORY).as_slice());
    buf.extend_from_slice(&[0u8; 32]);
    buf.extend_from_slice(keccak256(actor_init()).as_slice());
    Address::from_slice(&keccak256(buf)[12..])
}
fn lifecycle_db(image: &str) -> InMemoryDB {
    let mut accounts = account::mock_block_accounts(4);
    let mut codes: HashMap<revm_primitives::B256, Bytecode> = HashMap::default();
    let f = Bytecode::new_raw(factory_code().into());
    codes.insert(f.hash_slow(), f.clone());
    accounts.insert(a(FACTORY), PlainAccount { info: AccountInfo { nonce: 1, code_hash: f.hash_slow(), code: Some(f), ..Default::default() }, storage: Default::default() });
    match image {
        "indb" => {
            let bc = Bytecode::new_raw(actor_runtime().into());
            codes.insert(bc.hash_slow(), bc.clone());
            accounts.insert(actor_address(), PlainAccount {
                info: AccountInfo { nonce: 1, balance: U256::from(9), code_hash: bc.hash_slow(), code: Some(bc), ..Default::default() },
                storage: [(U256::from(0), U256::from(21)), (U256::from(3), U256::from(23))].into_iter().collect(),
            });
        }
        "funded" => {
            accounts.insert(actor_address(), PlainAccount {
                info: AccountInfo { nonce: 0, balance: U256::from(4), code_hash: KECCAK_EMPTY, code: None, ..Default::default() },
                storage: Default::default(),
            });
        }
        _ => {}
    }
    InMemoryDB::new(accounts, codes, HashMap::default())
}
fn lifecycle_tx(op: &str, sender: usize, nonce: u64) -> TxEnv {
    let word = |v: u64| { let mut w = [0u8; 32]; w[24..].copy_from_slice(&v.to_be_bytes()); w };
    let x = actor_address();
    let (to, data, value): (Address, Vec<u8>, u64) = match op {
        "destroy" => (x, [word(0), word(0), word(2)].concat(), 0),
        "fund" => (x, vec![], 3),
        "create" => (a(FACTORY), actor_init(), 0),
        "store0" => (x, [word(0), word(5), word(1)].concat(), 0),
        "clear1" => (x, [word(1), word(0), word(1)].concat(), 0),
        "store3" => (x, [word(3), word(8), word(1)].concat(), 0),
        _ => (x, vec![], 0),
    };
    TxEnv { caller: account::mock_eoa_address(sender), kind: TxKind::Call(to), data: Bytes::from(data), value: U256::from(value),
            gas_limit: 400_000, gas_price: 1, nonce, ..Default::default() }
}
fn observe<DB: Database>(db: &mut DB) -> String
where
    DB::Error: std::fmt::Debug,
{
    let x = actor_address();
    let info = match db.basic(x) {
        Ok(i) => i,
        Err(e) => return format!("error {e:?}"),
    };
    // an account that exists only as an empty shell is "not existing" for the EVM
    let exists = info.as_ref().is_some_and(|i| !i.is_empty());
    let (code, nonce, bal) = info.as_ref().map_or((false, 0, U256::ZERO), |i| (i.code_hash != KECCAK_EMPTY, i.nonce, i.balance));
    let slot = |db: &mut DB, k: u64| match db.storage(x, U256::from(k)) {
        Ok(v) => format!("{v}"),
        Err(e) => format!("error {e:?}"),
    };
    format!("exists={exists} code={code} nonce={nonce} bal={bal} s0={} s1={} s3={}", slot(db, 0), slot(db, 1), slot(db, 3))
}

pub fn cmd_lifecycle(a: &Value) -> Value {
    let text = std::fs::read_to_string(a["cases"].as_str().unwrap()).expect("cases file");
    let cases: Vec<Value> = serde_json::from_str(&text).expect("cases json");
    let stride = a["stride"].as_u64().unwrap_or(1) as usize;
    let offset = a["offset"].as_u64().unwrap_or(0) as usize;
    let (mut runs, mut steps) = (0usize, 0usize);
    let mut violations: Vec<Value> = Vec::new();
    let mut model_mismatch: Vec<Value> = Vec::new();
    let mut sample = Value::Null;
    for c in cases.iter().skip(offset).step_by(stride) {
        let spec = if c["fork"] == "shanghai" { SpecId::SHANGHAI } else { SpecId::CANCUN };
        let db = Arc::new(lifecycle_db(c["image"].as_str().unwrap()));
        let mut par: ParallelState<Arc<InMemoryDB>> = ParallelState::new(db.clone(), true, false);
        let mut seq: State<_> = StateBuilder::new().with_bundle_update().with_database_ref(db.clone()).build();
        let mut nonces = [1u64; 4];
        runs += 1;
        let ops: Vec<&str> = c["ops"].as_array().unwrap().iter().map(|o| o.as_str().unwrap()).collect();
        let mut bad = false;
        for (k, op) in ops.iter().enumerate() {
            let sender = k % 3;
            let tx = lifecycle_tx(op, sender, nonces[sender]);
            nonces[sender] += 1;
            let (x, y) = (transact(&mut par, spec, tx.clone()), transact(&mut seq, spec, tx));
            steps += 1;
            let e = &c["expect"][k];
            let want = format!("exists={} code={} nonce={} bal={} s0={} s1={} s3={}", e["exists"], e["code"], e["nonce"], e["bal"], e["s0"], e["s1"], e["s3"]);
            let (op_, os) = (observe(&mut par), observe(&mut seq));
            if os != want && model_mismatch.len() < 5 {
                model_mismatch.push(json!({"case": c, "step": k, "revm_state": os, "rule": want}));
                bad = true;
            }
            if (x != y || op_ != os) && violations.len() < 8 {
                violations.push(json!({"case": c, "step": k, "what": format!("after {:?} ({} fork, image {}): ParallelState serves [{op_}] result {}, revm State serves [{os}] result {}",
                    &ops[..=k], c["fork"], c["image"], &x[..x.len().min(80)], &y[..y.len().min(80)])}));
                bad = true;
            }
            if bad {
                break;
            }
        }
        if !bad {
            seq.merge_transitions(BundleRetention::Reverts);
            let (x, y) = (par.parallel_take_bundle(BundleRetention::Reverts), seq.take_bundle());
            if let Some(d) = bundle_diff(&y, &x) && violations.len() < 8 {
                violations.push(json!({"case": c, "step": ops.len(), "what": format!("after {ops:?}: extracted bundle differs: {d}")}));
            }
        }
        if sample.is_null() {
            sample = json!({"case": c, "observed": observe(&mut par)});
        }
    }
    json!({"runs": runs, "steps": steps, "violations": violations, "model_mismatch": model_mismatch, "sample": sample, "cases": cases.len()})
}
