//! Component probes: the production `WaitSlot`, cursors and dependency graph driven by a few
//! harness threads under the step controller.

use crate::controller::{Config, Controller, Policy, RunRecord, Verdict};
use grevm::verif::{self, Val, probe};
use serde_json::{Value, json};
use std::{
    sync::{
        Arc, Mutex,
        atomic::{AtomicBool, AtomicUsize, Ordering},
    },
    thread,
    time::Duration,
};

pub type Body = Box<dyn FnOnce(Arc<Controller>) + Send>;

/// Run `roots` (role, body) as controlled threads until all finished or the controller gave up.
pub fn run_roots(cfg: Config, roots: Vec<(String, Body)>) -> RunRecord {
    let ctl = Controller::new(cfg);
    verif::install(ctl.clone());
    let mut handles = Vec::new();
    for (k, (role, body)) in roots.into_iter().enumerate() {
        let c = ctl.clone();
        handles.push(thread::spawn(move || {
            c.register_root(&role);
            body(c.clone());
            c.finish_root();
        }));
        ctl.wait_roots(k + 1);
    }
    ctl.start();
    for h in handles {
        let _ = h.join();
    }
    verif::uninstall();
    ctl.record()
}

/// Enumerate schedules depth-first (replay from the start), optionally preemption-bounded.
pub fn dfs(
    mut run: impl FnMut(Vec<usize>) -> RunRecord,
    max_runs: usize,
    mut each: impl FnMut(&RunRecord) -> bool,
) -> (usize, bool) {
    let mut prefix: Vec<usize> = Vec::new();
    let mut runs = 0;
    loop {
        let rec = run(prefix.clone());
        runs += 1;
        if !each(&rec) {
            return (runs, false);
        }
        let mut c = rec.choices.clone();
        loop {
            match c.pop() {
                None => return (runs, true),
                Some((n, i)) if i + 1 < n => {
                    c.push((n, i + 1));
                    break;
                }
                Some(_) => {}
            }
        }
        prefix = c.iter().map(|&(_, i)| i).collect();
        if runs >= max_runs {
            return (runs, false);
        }
    }
}

pub fn events_json(rec: &RunRecord) -> Vec<Value> {
    rec.events.iter().map(|e| e.to_json()).collect()
}

pub fn verdict_json(v: &Option<Verdict>) -> Value {
    match v {
        None => Value::Null,
        Some(Verdict::StepBound) => json!({"kind": "step_bound"}),
        Some(Verdict::Deadlock { parked, lock_waiters, idle }) => {
            json!({"kind": "deadlock", "parked": parked, "lock_waiters": lock_waiters, "idle": idle})
        }
    }
}

// ------------------------------------------------------------------------------------------
// WaitSlot
// ------------------------------------------------------------------------------------------

pub struct WaitOutcome {
    pub record: RunRecord,
    pub waiter_returned: bool,
}

/// One waiter, `notifiers` publish-then-notify threads, `spurious` notify-only threads.
pub fn wait_probe(cfg: Config, notifiers: usize, spurious: usize) -> WaitOutcome {
    let slot = Arc::new(probe::Slot::new());
    let cond = Arc::new(AtomicBool::new(false));
    let returned = Arc::new(AtomicBool::new(false));
    let mut roots: Vec<(String, Body)> = Vec::new();
    {
        let (slot, cond, returned) = (slot.clone(), cond.clone(), returned.clone());
        roots.push((
            "w".into(),
            Box::new(move |ctl| {
                slot.register_current_thread();
                loop {
                    ctl.user_point("W_LoopRead");
                    let c = cond.load(Ordering::SeqCst);
                    ctl.user_emit("W_LoopRead", vec![("cond", Val::B(c))]);
                    if c {
                        returned.store(true, Ordering::SeqCst);
                        break;
                    }
                    if ctl.aborted() {
                        break;
                    }
                    let (c2, cond2) = (ctl.clone(), cond.clone());
                    slot.wait_while(Duration::from_secs(8), move || {
                        c2.user_point("W_Check");
                        let blocked = !cond2.load(Ordering::SeqCst);
                        c2.user_emit("W_Check", vec![("blocked", Val::B(blocked))]);
                        // The window between the predicate's read and whatever wait_while does next.
                        c2.user_point("W_CheckEnd");
                        blocked && !c2.aborted()
                    });
                }
            }),
        ));
    }
    for n in 0..notifiers {
        let (slot, cond) = (slot.clone(), cond.clone());
        roots.push((
            format!("n{}", n + 1),
            Box::new(move |ctl| {
                ctl.user_point("P_Publish");
                cond.store(true, Ordering::SeqCst);
                ctl.user_emit("P_Publish", vec![]);
                slot.notify();
            }),
        ));
    }
    for n in 0..spurious {
        let slot = slot.clone();
        roots.push((
            format!("s{}", n + 1),
            Box::new(move |_ctl| {
                slot.notify();
            }),
        ));
    }
    let record = run_roots(cfg, roots);
    WaitOutcome { record, waiter_returned: returned.load(Ordering::SeqCst) }
}

// ------------------------------------------------------------------------------------------
// Cursors, frontier, logical clock
// ------------------------------------------------------------------------------------------

#[derive(Clone, Debug)]
pub struct CursorScript {
    pub n: usize,
    /// The `executing_idx` every claimer passes (the dependency cursor in the scheduler).
    pub exec_idx: usize,
    /// Indices already executed (published, uncontrolled) before the threads start.
    pub pre_executed: Vec<usize>,
    /// Cursor position reached (by uncontrolled claims) before the threads start.
    pub pre_claimed: usize,
    /// Number of claim attempts per claimer.
    pub claimers: Vec<usize>,
    /// Index each rewinder rewinds to.
    pub rewinders: Vec<usize>,
    /// Index each publisher publishes.
    pub publishers: Vec<usize>,
}

pub struct CursorOutcome {
    pub record: RunRecord,
    /// (thread, claimed index) in claim order.
    pub claims: Vec<(String, usize)>,
    /// Claims made by an (uncontrolled) drain after all threads finished.
    pub drained: Vec<usize>,
    pub final_frontier: usize,
    pub final_validation: usize,
}

pub fn cursor_probe(cfg: Config, script: &CursorScript) -> CursorOutcome {
    let ctx = Arc::new(probe::Context::new(script.n));
    for &i in &script.pre_executed {
        ctx.executed(i);
    }
    for _ in 0..script.pre_claimed {
        let _ = ctx.next_validation_idx(script.exec_idx);
    }
    let claims = Arc::new(Mutex::new(Vec::new()));
    let mut roots: Vec<(String, Body)> = Vec::new();
    for (k, &attempts) in script.claimers.iter().enumerate() {
        let (ctx, claims, exec_idx) = (ctx.clone(), claims.clone(), script.exec_idx);
        let role = format!("c{}", k + 1);
        let r2 = role.clone();
        roots.push((
            role,
            Box::new(move |ctl| {
                for _ in 0..attempts {
                    if ctl.aborted() {
                        break;
                    }
                    if let Some(i) = ctx.next_validation_idx(exec_idx) {
                        claims.lock().unwrap().push((r2.clone(), i));
                    }
                }
            }),
        ));
    }
    for (k, &to) in script.rewinders.iter().enumerate() {
        let ctx = ctx.clone();
        roots.push((
            format!("r{}", k + 1),
            Box::new(move |_ctl| {
                ctx.rewind_validation_to(to);
            }),
        ));
    }
    for (k, &i) in script.publishers.iter().enumerate() {
        let ctx = ctx.clone();
        roots.push((
            format!("p{}", k + 1),
            Box::new(move |_ctl| {
                ctx.executed(i);
            }),
        ));
    }
    let record = run_roots(cfg, roots);
    // Uncontrolled epilogue: what a later poller would still be handed, and where the frontier is.
    let final_frontier = ctx.execution_frontier();
    let mut drained = Vec::new();
    while let Some(i) = ctx.next_validation_idx(script.exec_idx) {
        drained.push(i);
        if drained.len() > 4 * script.n + 4 {
            break;
        }
    }
    let claims = claims.lock().unwrap().clone();
    CursorOutcome { record, claims, drained, final_frontier, final_validation: ctx.validation_idx() }
}

// ------------------------------------------------------------------------------------------
// Dependency graph with the scheduler's caller contract
// ------------------------------------------------------------------------------------------

/// Scripted outcome of one execution attempt of a transaction.
#[derive(Clone, Debug, PartialEq)]
pub enum Attempt {
    /// Executes without conflict.
    Ok,
    /// Reads an estimate of `blocker` (a strict predecessor): `add(tx, Some(blocker))`.
    Blocked(usize),
    /// Fails with no unresolved predecessor: parks behind its own commit boundary (`key_tx`).
    Error,
    /// Executes, but its validation finds a conflict: `add(tx, dep)` with the scripted hint.
    Invalid(Option<usize>),
}

#[derive(Clone, Debug)]
pub struct DepScript {
    pub n: usize,
    pub workers: usize,
    /// attempts[tx] = outcomes of successive attempts; the last one must be `Ok`.
    pub attempts: Vec<Vec<Attempt>>,
}

#[derive(Clone, Copy, Debug, PartialEq)]
enum St {
    Ready,
    Executing,
    Executed,
    Validated,
}

pub struct DepOutcome {
    pub record: RunRecord,
    pub committed: usize,
    pub executions: Vec<usize>,
    /// (tx, number of simultaneous claimers observed) whenever a tx was claimed twice.
    pub double_claims: Vec<usize>,
}

/// Workers follow `scheduler.rs::next / execution_task / execute_task` as far as the dependency
/// graph is concerned; a commit thread commits executed transactions in order.
pub fn dep_probe(cfg: Config, script: &DepScript) -> DepOutcome {
    let n = script.n;
    let dep = Arc::new(probe::Dependency::new(n));
    let committed = Arc::new(verif::sync::AtomicUsize::new(0));
    // tx_states[i] of the scheduler: the controller-aware facade lock, held across a whole attempt.
    let status: Arc<Vec<verif::sync::Mutex<(St, usize)>>> =
        Arc::new((0..n).map(|_| verif::sync::Mutex::new((St::Ready, 0))).collect());
    let executions: Arc<Vec<AtomicUsize>> = Arc::new((0..n).map(|_| AtomicUsize::new(0)).collect());
    let double_claims = Arc::new(Mutex::new(Vec::new()));
    let done = Arc::new(AtomicBool::new(false));
    let mut roots: Vec<(String, Body)> = Vec::new();
    for w in 0..script.workers {
        let (dep, committed, status, executions, done, double_claims) = (
            dep.clone(),
            committed.clone(),
            status.clone(),
            executions.clone(),
            done.clone(),
            double_claims.clone(),
        );
        let attempts = script.attempts.clone();
        roots.push((
            format!("w{w}"),
            Box::new(move |ctl| {
                let mut handoff: Option<usize> = None;
                loop {
                    if handoff.is_none() {
                        ctl.user_point("TW_Loop");
                        verif::spin_begin();
                        let fin = done.load(Ordering::SeqCst);
                        ctl.user_emit("TW_Loop", vec![("done", Val::B(fin))]);
                        if fin || ctl.aborted() {
                            break;
                        }
                    }
                    let claimed = handoff.take().or_else(|| dep.next());
                    let Some(tx) = claimed else {
                        verif::spin_end();
                        continue;
                    };
                    // execution_task: the status under the transaction lock is the authority.
                    let (kind, inc) = {
                        let mut s = status[tx].lock();
                        match s.0 {
                            St::Ready => {
                                s.0 = St::Executing;
                                s.1 += 1;
                                ("execute", s.1)
                            }
                            St::Executing => ("duplicate", s.1),
                            St::Executed | St::Validated => ("past", s.1),
                        }
                    };
                    ctl.user_emit(
                        "TW_Task",
                        vec![("tx", Val::I(tx as i64)), ("kind", Val::S(kind.into())), ("inc", Val::I(inc as i64))],
                    );
                    match kind {
                        "duplicate" => continue,
                        "past" => {
                            dep.remove(tx, false);
                            continue;
                        }
                        _ => {}
                    }
                    if executions[tx].fetch_add(1, Ordering::SeqCst) >= attempts[tx].len() {
                        double_claims.lock().unwrap().push(tx);
                    }
                    let k = (inc - 1).min(attempts[tx].len() - 1);
                    // execute_task: the transaction lock is held until the status is final.
                    let mut held = status[tx].lock();
                    let outcome = attempts[tx][k].clone();
                    // A scripted blocker that is already committed cannot be an estimate any more.
                    let outcome = match outcome {
                        Attempt::Blocked(b) if b < committed.load(Ordering::SeqCst) => Attempt::Ok,
                        Attempt::Error if tx == committed.load(Ordering::SeqCst) => Attempt::Ok,
                        Attempt::Invalid(Some(b)) if b < committed.load(Ordering::SeqCst) => {
                            Attempt::Invalid(None)
                        }
                        o => o,
                    };
                    let (kind, b) = match &outcome {
                        Attempt::Ok => ("ok", -1),
                        Attempt::Blocked(b) => ("blocked", *b as i64),
                        Attempt::Error => ("error", -1),
                        Attempt::Invalid(None) => ("invalid", -1),
                        Attempt::Invalid(Some(b)) => ("invalid", *b as i64),
                    };
                    ctl.user_emit(
                        "TW_Exec",
                        vec![("tx", Val::I(tx as i64)), ("kind", Val::S(kind.into())), ("b", Val::I(b))],
                    );
                    match outcome {
                        Attempt::Ok => {
                            let next = dep.remove(tx, true);
                            ctl.user_point("TW_Status");
                            held.0 = St::Validated;
                            ctl.user_emit(
                                "TW_Status",
                                vec![("tx", Val::I(tx as i64)), ("status", Val::S("Validated".into()))],
                            );
                            handoff = next;
                        }
                        Attempt::Invalid(hint) => {
                            let next = dep.remove(tx, true);
                            ctl.user_point("TW_Status");
                            held.0 = St::Executed;
                            ctl.user_emit(
                                "TW_Status",
                                vec![("tx", Val::I(tx as i64)), ("status", Val::S("Executed".into()))],
                            );
                            // validate(): conflict found, re-offer behind the hinted predecessor.
                            dep.add(tx, hint);
                            ctl.user_point("TW_Status");
                            held.0 = St::Ready;
                            ctl.user_emit(
                                "TW_Status",
                                vec![("tx", Val::I(tx as i64)), ("status", Val::S("Ready".into()))],
                            );
                            handoff = next;
                        }
                        Attempt::Blocked(b) => {
                            dep.add(tx, Some(b));
                            ctl.user_point("TW_Status");
                            held.0 = St::Ready;
                            ctl.user_emit(
                                "TW_Status",
                                vec![("tx", Val::I(tx as i64)), ("status", Val::S("Ready".into()))],
                            );
                        }
                        Attempt::Error => {
                            dep.key_tx(tx, &committed);
                            ctl.user_point("TW_Status");
                            held.0 = St::Ready;
                            ctl.user_emit(
                                "TW_Status",
                                vec![("tx", Val::I(tx as i64)), ("status", Val::S("Ready".into()))],
                            );
                        }
                    }
                }
            }),
        ));
    }
    {
        let (dep, committed, status, done) = (dep.clone(), committed.clone(), status.clone(), done.clone());
        roots.push((
            "com".into(),
            Box::new(move |ctl| {
                let mut k = 0;
                while k < n && !ctl.aborted() {
                    ctl.user_point("TC_Poll");
                    verif::spin_begin();
                    let ready = status[k].lock().0 == St::Validated;
                    ctl.user_emit("TC_Poll", vec![("tx", Val::I(k as i64)), ("ready", Val::B(ready))]);
                    if !ready {
                        verif::spin_end();
                        continue;
                    }
                    ctl.user_point("TC_Publish");
                    committed.store(k + 1, Ordering::SeqCst);
                    ctl.user_emit("TC_Publish", vec![("com", Val::I(k as i64 + 1))]);
                    dep.commit(k);
                    k += 1;
                }
                ctl.user_point("TC_Done");
                done.store(true, Ordering::SeqCst);
                ctl.user_emit("TC_Done", vec![]);
            }),
        ));
    }
    let record = run_roots(cfg, roots);
    DepOutcome {
        record,
        committed: committed.load(Ordering::SeqCst),
        executions: executions.iter().map(|e| e.load(Ordering::SeqCst)).collect(),
        double_claims: double_claims.lock().unwrap().clone(),
    }
}

// ------------------------------------------------------------------------------------------
// Beneficiary history
// ------------------------------------------------------------------------------------------

#[derive(Clone, Debug)]
pub enum HistOp {
    /// (incarnation, kind, value): kind = reward | snap | unchanged | est; snap value -1 = deleted
    Rec(usize, String, i64),
    Inv(usize),
}

#[derive(Clone, Debug)]
pub struct HistScript {
    pub anchor: i64,
    pub ops: Vec<Vec<HistOp>>,
    /// balances are placed just below U256::MAX so that the model's saturation bound is revm's overflow
    pub near_max: bool,
}

pub const HIST_MAXBAL: i64 = 20;

pub struct HistOutcome {
    pub record: RunRecord,
    pub value: Option<i64>,
    pub valid: bool,
    pub expected: i64,
    pub final_ok: bool,
}

fn to_real(b: i64, near_max: bool) -> revm_primitives::U256 {
    use revm_primitives::U256;
    if near_max { U256::MAX - U256::from(HIST_MAXBAL as u64) + U256::from(b as u64) } else { U256::from(b as u64) }
}
fn from_real(v: revm_primitives::U256, near_max: bool) -> i64 {
    use revm_primitives::U256;
    let x = if near_max { v - (U256::MAX - U256::from(HIST_MAXBAL as u64)) } else { v };
    x.try_into().unwrap_or(i64::MAX)
}

/// In-order value before the reader: every writer contributes its last incarnation's effect.
pub fn hist_expected(s: &HistScript) -> i64 {
    let mut b = s.anchor;
    for w in &s.ops {
        let last = w
            .iter()
            .filter_map(|o| if let HistOp::Rec(i, k, v) = o { Some((*i, k.clone(), *v)) } else { None })
            .max_by_key(|x| x.0)
            .unwrap();
        match last.1.as_str() {
            "reward" => {
                let x = if b == -1 { 0 } else { b };
                b = if x + last.2 > HIST_MAXBAL && s.near_max { x } else { x + last.2 };
            }
            "snap" => b = last.2,
            _ => {}
        }
    }
    b
}

pub fn hist_probe(cfg: Config, script: &HistScript) -> HistOutcome {
    use revm_primitives::U256;
    let n = script.ops.len();
    let nm = script.near_max;
    let hist = Arc::new(probe::History::new(
        if script.anchor < 0 { None } else { Some(to_real(script.anchor, nm)) },
        n + 1,
    ));
    let done = Arc::new(AtomicUsize::new(0));
    let result = Arc::new(Mutex::new((None::<i64>, false)));
    let mut roots: Vec<(String, Body)> = Vec::new();
    for (j, ops) in script.ops.iter().cloned().enumerate() {
        let (hist, done) = (hist.clone(), done.clone());
        roots.push((
            format!("w{j}"),
            Box::new(move |_ctl| {
                for op in ops {
                    match op {
                        HistOp::Rec(inc, kind, v) => {
                            let _ = match kind.as_str() {
                                "reward" => hist.record(j, inc, Some(Ok(U256::from(v as u64)))),
                                "snap" => hist.record(j, inc, Some(Err(if v < 0 { None } else { Some(to_real(v, nm)) }))),
                                "unchanged" => hist.record(j, inc, None),
                                _ => hist.record_estimate(j, inc),
                            };
                        }
                        HistOp::Inv(inc) => {
                            let _ = hist.invalidate(j, inc);
                        }
                    }
                }
                done.fetch_add(1, Ordering::SeqCst);
            }),
        ));
    }
    {
        let (hist, done, result) = (hist.clone(), done.clone(), result.clone());
        roots.push((
            "r".into(),
            Box::new(move |ctl| {
                // resolve (retry while blocked by an estimate), then the decisive validation once
                // every predecessor has published its last incarnation
                let read = loop {
                    if ctl.aborted() {
                        return;
                    }
                    match hist.resolve_before(n) {
                        Ok(r) => break r,
                        Err(_) => {
                            verif::spin_begin();
                            ctl.user_point("HR_Retry");
                            verif::spin_end();
                        }
                    }
                };
                loop {
                    ctl.user_point("HR_Wait");
                    verif::spin_begin();
                    if done.load(Ordering::SeqCst) == n || ctl.aborted() {
                        break;
                    }
                    verif::spin_end();
                }
                let (valid, _) = hist.validate(n, &read.origins);
                *result.lock().unwrap() = (Some(read.balance.map_or(-1, |b| from_real(b, nm))), valid);
            }),
        ));
    }
    let record = run_roots(cfg, roots);
    let (value, valid) = *result.lock().unwrap();
    // the newest incarnation of every writer must be what the history holds at the end
    let mut final_ok = true;
    for (j, ops) in script.ops.iter().enumerate() {
        let last = ops.iter().filter_map(|o| if let HistOp::Rec(i, _, _) = o { Some(*i) } else { None }).max().unwrap();
        // a re-record of the same-or-older incarnation must be refused, a newer one accepted
        final_ok &= !hist.record_estimate(j, last) && hist.invalidate(j, last);
    }
    HistOutcome { record, value, valid, expected: hist_expected(script), final_ok }
}

pub fn default_policy(seed: u64, groups: u32, policy: Policy) -> Config {
    Config { groups, policy, seed, max_steps: 20_000, preemption_bound: None }
}
