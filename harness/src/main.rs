//! `vh <command> '<json args>'` — harness entry points used by /verif/check.
mod controller;
mod probes;
mod sched;
mod statehist;

use controller::{Config, Policy};
use grevm::verif::group;
use probes::*;
use grevm::TxExecutionOutcome;
use serde_json::{Value, json};
use std::{
    fs::File,
    io::{BufWriter, Write},
};

fn groups_of(v: &Value) -> u32 {
    let mut g = 0;
    for name in v.as_array().map(|a| a.as_slice()).unwrap_or(&[]) {
        g |= match name.as_str().unwrap_or("") {
            "SCHED" => group::SCHED,
            "CURSOR" => group::CURSOR,
            "DEP" => group::DEP,
            "DEPX" => group::DEPX,
            "WAIT" => group::WAIT,
            "CACHE" => group::CACHE,
            "HIST" => group::HIST,
            "ENTRY" => group::ENTRY,
            "ATOMIC" => group::ATOMIC,
            other => panic!("unknown group {other}"),
        };
    }
    g
}

fn policy_of(a: &Value, prefix: Vec<usize>) -> Policy {
    match a["policy"].as_str().unwrap_or("dfs") {
        "random" => Policy::Random,
        "pct" => Policy::Pct {
            depth: a["pct_depth"].as_u64().unwrap_or(3) as usize,
            est_len: a["pct_len"].as_u64().unwrap_or(200) as usize,
        },
        "replay" => Policy::Replay(
            a["schedule"].as_array().unwrap().iter().map(|s| s.as_str().unwrap().to_owned()).collect(),
        ),
        _ => Policy::Dfs(prefix),
    }
}

struct TraceOut {
    w: BufWriter<File>,
    runs: usize,
    events: usize,
}

impl TraceOut {
    fn new(path: &str) -> Self {
        Self { w: BufWriter::new(File::create(path).expect("trace file")), runs: 0, events: 0 }
    }
    fn run(&mut self, header: Value, events: &[Value]) {
        let mut h = header;
        h["l"] = json!("RESET");
        writeln!(self.w, "{h}").unwrap();
        for e in events {
            writeln!(self.w, "{e}").unwrap();
            self.events += 1;
        }
        self.runs += 1;
    }
}

/// Drive a probe over schedules (dfs / random / pct / replay), calling `each` per run.
fn drive(
    a: &Value,
    groups: u32,
    keep: u32,
    mut one: impl FnMut(Config) -> (controller::RunRecord, Value, Option<String>),
    out: &mut TraceOut,
) -> Value {
    let max_runs = a["max_runs"].as_u64().unwrap_or(2000) as usize;
    let seed = a["seed"].as_u64().unwrap_or(1);
    let bound = a["preemption_bound"].as_u64().map(|b| b as usize);
    let max_steps = a["max_steps"].as_u64().unwrap_or(20_000) as usize;
    let mut violations: Vec<Value> = Vec::new();
    let mut distinct = std::collections::HashSet::new();
    let mut sample = Value::Null;
    let mut steps = 0usize;
    let dfs_mode = a["policy"].as_str().unwrap_or("dfs") == "dfs";
    let mut body = |cfg: Config, out: &mut TraceOut| -> controller::RunRecord {
        let (rec, header, violation) = one(cfg);
        let evs: Vec<Value> =
            rec.events.iter().filter(|e| e.group & keep != 0).map(|e| e.to_json()).collect();
        steps += rec.steps;
        distinct.insert(rec.schedule.join(","));
        if sample.is_null() {
            sample = json!({"header": header, "events": evs, "schedule": rec.schedule});
        }
        if let Some(v) = violation {
            if violations.len() < 5 {
                violations.push(json!({"what": v, "header": header, "schedule": rec.schedule,
                    "verdict": verdict_json(&rec.verdict), "events": evs}));
            }
        } else {
            out.run(header, &evs);
        }
        rec
    };
    let (runs, exhaustive) = if dfs_mode {
        dfs(
            |prefix| {
                body(
                    Config { groups, policy: Policy::Dfs(prefix), seed, max_steps, preemption_bound: bound },
                    out,
                )
            },
            max_runs,
            |_| true,
        )
    } else {
        for k in 0..max_runs {
            body(
                Config {
                    groups,
                    policy: policy_of(a, vec![]),
                    seed: seed.wrapping_mul(1_000_003).wrapping_add(k as u64),
                    max_steps,
                    preemption_bound: None,
                },
                out,
            );
        }
        (max_runs, false)
    };
    json!({"runs": runs, "exhaustive": exhaustive && bound.is_none(), "bounded_exhaustive": exhaustive,
        "distinct_schedules": distinct.len(), "steps": steps, "violations": violations, "sample": sample})
}

fn cmd_wait(a: &Value) -> Value {
    let groups = groups_of(&a["groups"]);
    let notifiers = a["notifiers"].as_u64().unwrap_or(1) as usize;
    let spurious = a["spurious"].as_u64().unwrap_or(0) as usize;
    let mut out = TraceOut::new(a["out"].as_str().unwrap());
    let mut res = drive(
        a,
        groups,
        u32::MAX,
        |cfg| {
            let o = wait_probe(cfg, notifiers, spurious);
            let violation = if o.record.verdict.is_some() {
                Some(format!("waiter stuck: {:?}", o.record.verdict))
            } else if !o.waiter_returned {
                Some("waiter did not return although the condition was published".to_owned())
            } else {
                None
            };
            (o.record, json!({"notifiers": notifiers, "spurious": spurious}), violation)
        },
        &mut out,
    );
    res["trace_runs"] = json!(out.runs);
    res["trace_events"] = json!(out.events);
    res
}

fn cursor_script(a: &Value) -> CursorScript {
    let list = |v: &Value| -> Vec<usize> {
        v.as_array().map(|x| x.iter().map(|i| i.as_u64().unwrap() as usize).collect()).unwrap_or_default()
    };
    CursorScript {
        n: a["n"].as_u64().unwrap() as usize,
        exec_idx: a["exec_idx"].as_u64().unwrap() as usize,
        pre_executed: list(&a["pre_executed"]),
        pre_claimed: a["pre_claimed"].as_u64().unwrap_or(0) as usize,
        claimers: list(&a["claimers"]),
        rewinders: list(&a["rewinders"]),
        publishers: list(&a["publishers"]),
    }
}

fn cmd_cursor(a: &Value) -> Value {
    let groups = groups_of(&a["groups"]);
    let mut out = TraceOut::new(a["out"].as_str().unwrap());
    let scripts: Vec<CursorScript> = a["scripts"].as_array().unwrap().iter().map(cursor_script).collect();
    let mut all = Vec::new();
    for (k, script) in scripts.iter().enumerate() {
        let header = a["scripts"][k].clone();
        let mut res = drive(
            a,
            groups,
            group::CURSOR,
            |cfg| {
                let o = cursor_probe(cfg, script);
                let mut h = header.clone();
                h["claims"] = json!(o.claims.iter().map(|(t, i)| json!([t, i])).collect::<Vec<_>>());
                h["drained"] = json!(o.drained);
                h["final_frontier"] = json!(o.final_frontier);
                let violation = cursor_monitor(script, &o);
                (o.record, h, violation)
            },
            &mut out,
        );
        res["script"] = header;
        all.push(res);
    }
    json!({"scripts": all, "trace_runs": out.runs, "trace_events": out.events})
}

/// Harness-side evaluation of C15 on one run (the TLC trace check evaluates the same on the
/// specification state).
fn cursor_monitor(s: &CursorScript, o: &CursorOutcome) -> Option<String> {
    if let Some(v) = &o.record.verdict {
        return Some(format!("controller verdict {v:?}"));
    }
    // The contiguous executed prefix at the end.
    let mut executed = vec![false; s.n];
    for &i in s.pre_executed.iter().chain(s.publishers.iter()) {
        executed[i] = true;
    }
    let prefix = executed.iter().take_while(|&&e| e).count();
    if o.final_frontier != prefix {
        return Some(format!("frontier {} != executed prefix {prefix}", o.final_frontier));
    }
    let limit = s.exec_idx.min(prefix);
    // Per event: claims below the limit the claimer read; rewound indices re-offered.
    let mut cursor = s.pre_claimed.min(s.exec_idx.min(
        s.pre_executed.iter().fold(vec![false; s.n], |mut v, &i| { v[i] = true; v }).iter().take_while(|&&e| e).count()));
    let mut pending: std::collections::BTreeSet<usize> = Default::default();
    let mut limits: std::collections::HashMap<String, i64> = Default::default();
    for e in &o.record.events {
        match e.label {
            "VC_Load" => {
                limits.insert(e.thread.clone(), e.int("limit").unwrap());
            }
            "VC_Cas" if e.boolean("ok") == Some(true) => {
                let cur = e.int("cur").unwrap();
                if cur >= *limits.get(&e.thread).unwrap_or(&i64::MAX) {
                    return Some(format!("{} claimed {cur} at or beyond its limit", e.thread));
                }
                if cur as usize != cursor {
                    return Some(format!("claim of {cur} while the cursor was {cursor}"));
                }
                pending.remove(&(cur as usize));
                cursor += 1;
            }
            "VC_Rewind" => {
                let (to, prev) = (e.int("to").unwrap() as usize, e.int("prev").unwrap() as usize);
                if prev != cursor {
                    return Some(format!("rewind saw cursor {prev}, expected {cursor}"));
                }
                for k in to..prev {
                    pending.insert(k);
                }
                cursor = cursor.min(to);
            }
            _ => {}
        }
        if let Some(&k) = pending.iter().next() &&
            k < cursor
        {
            return Some(format!("rewound index {k} was passed without being handed out"));
        }
    }
    for &d in &o.drained {
        pending.remove(&d);
        if d >= limit {
            return Some(format!("drain handed out {d} at or beyond the limit {limit}"));
        }
    }
    if let Some(&k) = pending.iter().find(|&&k| k < limit) {
        return Some(format!("rewound index {k} below the limit {limit} was never handed out"));
    }
    None
}

fn attempt_of(v: &Value) -> Attempt {
    let s = v.as_str().unwrap();
    if s == "ok" {
        Attempt::Ok
    } else if s == "error" {
        Attempt::Error
    } else if s == "invalid" {
        Attempt::Invalid(None)
    } else if let Some(b) = s.strip_prefix("blocked:") {
        Attempt::Blocked(b.parse().unwrap())
    } else if let Some(b) = s.strip_prefix("invalid:") {
        Attempt::Invalid(Some(b.parse().unwrap()))
    } else {
        panic!("bad attempt {s}")
    }
}

fn cmd_dep(a: &Value) -> Value {
    let groups = groups_of(&a["groups"]);
    let mut out = TraceOut::new(a["out"].as_str().unwrap());
    let mut all = Vec::new();
    for sc in a["scripts"].as_array().unwrap() {
        let script = DepScript {
            n: sc["n"].as_u64().unwrap() as usize,
            workers: sc["workers"].as_u64().unwrap() as usize,
            attempts: sc["attempts"]
                .as_array()
                .unwrap()
                .iter()
                .map(|l| l.as_array().unwrap().iter().map(attempt_of).collect())
                .collect(),
        };
        let mut res = drive(
            a,
            groups,
            group::DEP | group::DEPX | 0x8000_0000,
            |cfg| {
                let o = dep_probe(cfg, &script);
                let violation = if let Some(v) = &o.record.verdict {
                    Some(format!("no thread can make progress ({v:?}) with committed={} of {}", o.committed, script.n))
                } else if o.committed != script.n {
                    Some(format!("finished with committed={} of {}", o.committed, script.n))
                } else if !o.double_claims.is_empty() {
                    Some(format!("transactions executed more often than scripted: {:?}", o.double_claims))
                } else {
                    None
                };
                let mut h = sc.clone();
                h["executions"] = json!(o.executions);
                // record form of the attempts for the trace specification
                h["attempts"] = json!(sc["attempts"].as_array().unwrap().iter().map(|l| {
                    l.as_array().unwrap().iter().map(|a| {
                        let a = a.as_str().unwrap();
                        match a.split_once(':') {
                            Some((k, b)) => json!({"k": k, "b": b.parse::<i64>().unwrap()}),
                            None => json!({"k": a, "b": -1}),
                        }
                    }).collect::<Vec<_>>()
                }).collect::<Vec<_>>());
                (o.record, h, violation)
            },
            &mut out,
        );
        res["script"] = sc.clone();
        all.push(res);
    }
    json!({"scripts": all, "trace_runs": out.runs, "trace_events": out.events})
}

static PARTIAL: std::sync::Mutex<Option<Value>> = std::sync::Mutex::new(None);
static FATAL: std::sync::Mutex<Option<(controller::Verdict, controller::RunRecord)>> = std::sync::Mutex::new(None);

/// Called from the controller's fatal handler (a deadlock / step bound inside a scheduler run): the
/// stuck threads cannot be recovered, so report what was gathered so far and leave.
pub fn set_fatal(v: controller::Verdict, rec: controller::RunRecord) {
    *FATAL.lock().unwrap() = Some((v, rec));
}

pub fn fatal_exit() -> ! {
    let mut res = PARTIAL.lock().unwrap().take().unwrap_or_else(|| json!({}));
    if let Some((v, rec)) = FATAL.lock().unwrap().take() {
        let cur = res["current"].clone();
        let evs: Vec<Value> = rec.events.iter().rev().take(80).rev().map(|e| e.to_json()).collect();
        res["fatal"] = json!({"verdict": verdict_json(&Some(v)), "schedule": rec.schedule, "last_events": evs,
            "scenario": cur});
    }
    println!("{res}");
    std::process::exit(0);
}

fn cmd_sched(a: &Value) -> Value {
    use sched::*;
    let groups = groups_of(&a["groups"]);
    let workers = a["workers"].as_u64().unwrap_or(2) as usize;
    let runs = a["max_runs"].as_u64().unwrap_or(50) as usize;
    let seed = a["seed"].as_u64().unwrap_or(1);
    let max_steps = a["max_steps"].as_u64().unwrap_or(200_000) as usize;
    let mut out = TraceOut::new(a["out"].as_str().unwrap());
    let mut per = Vec::new();
    let mut violations: Vec<Value> = Vec::new();
    let fatal_slot = std::sync::Arc::new(std::sync::Mutex::new(None));
    for sc in a["scenarios"].as_array().unwrap() {
        let s = Scenario::from_json(sc);
        let mut uni: Vec<String> = Vec::new();
        for i in 0..s.locs.len() {
            let (a, k) = s.slots[i];
            uni.push(format!("S:{a:x}:{k:x}"));
            uni.push(format!("R:{a:x}"));
            uni.push(format!("B:{a:x}"));
        }
        if let Some(list) = sc["accounts"].as_array() {
            for acc in list {
                let a = named(&s, acc["name"].as_str().unwrap());
                uni.push(format!("B:{a:x}"));
                if let Some(m) = acc["storage"].as_object() {
                    for k in m.keys() {
                        uni.push(format!("S:{a:x}:{:x}", k.parse::<u64>().unwrap()));
                    }
                }
            }
        }
        if let Some(list) = sc["watch"].as_array() {
            // extra locations to compare: ["name", slot] or ["name"]
            for w in list {
                let a = named(&s, w[0].as_str().unwrap());
                uni.push(format!("B:{a:x}"));
                if let Some(k) = w[1].as_u64() {
                    uni.push(format!("S:{a:x}:{k:x}"));
                }
            }
        }
        uni.push(format!("B:{:x}", holder()));
        uni.push(format!("B:{:x}", driver()));
        for i in 0..s.n {
            uni.push(format!("B:{:x}", grevm::test_utils::common::account::mock_eoa_address(i)));
        }
        let resets: Vec<String> = uni.iter().filter(|l| l.starts_with("S:")).map(|l| format!("R:{}", l.split(':').nth(1).unwrap())).collect();
        uni.extend(resets);
        uni.sort();
        uni.dedup();
        // persistent faults: the oracle is in-order execution on the same faulty database;
        // transient faults: the fault-free run (see `monitors`)
        let faulty_ref = s.fault.as_ref().is_some_and(|(_, m)| m == "persistent");
        if s.fault.as_ref().is_some_and(|(_, m)| m == "panic") {
            // keep the injected panics of the reference and of the workers out of the log
            std::panic::set_hook(Box::new(|info| {
                let msg = info.payload().downcast_ref::<String>().cloned().or_else(|| info.payload().downcast_ref::<&str>().map(|s| (*s).to_owned())).unwrap_or_default();
                if !msg.contains("injected panic") {
                    eprintln!("panic: {msg} at {:?}", info.location());
                }
            }));
        }
        let mut reference = sched::reference(&s, &uni, faulty_ref);
        let mut distinct = std::collections::HashSet::new();
        let mut steps = 0usize;
        let mut sample = Value::Null;
        let mut guided: Vec<Value> = Vec::new();
        let mut policy_other = None;
        for k in 0..runs {
            let policy = match a["policy"].as_str().unwrap_or("pct") {
                "replay" => policy_of(a, vec![]),
                "guide" if k == 0 || k % 2 == 1 => Policy::Guide(
                    a["guide"].as_array().unwrap().iter().map(|g| {
                        let loc = g[2].as_str().map(|name| {
                            // model location name -> raw event location of this scenario
                            s.locs.iter().position(|l| l == name).map_or(name.to_owned(), |i| { let (a, k) = s.slots[i]; format!("S:{a:x}:{k:x}") })
                        });
                        (g[0].as_str().unwrap().to_owned(), g[1].as_str().unwrap().to_owned(), loc)
                    }).collect()),
                "random" => Policy::Random,
                _ => if k % 3 == 2 { Policy::Random } else { Policy::Pct { depth: 2 + k % 4, est_len: 150 * s.n } },
            };
            let run_seed = seed.wrapping_mul(7919).wrapping_add(k as u64);
            let cfg = Config { groups, policy, seed: run_seed, max_steps, preemption_bound: None };
            *PARTIAL.lock().unwrap() = Some(json!({"scenarios": per, "violations": violations, "trace_runs": out.runs,
                "trace_events": out.events, "current": {"scenario": sc, "seed": run_seed, "workers": workers, "run": k}}));
            let fs = fatal_slot.clone();
            let o = run_scheduler(&s, cfg, workers, a["force_sequential"].as_bool().unwrap_or(false), fs, &uni);
            if let Some(f) = fatal_slot.lock().unwrap().take() {
                *FATAL.lock().unwrap() = Some(f);
            }
            steps += o.record.steps;
            distinct.insert(o.record.schedule.join(","));
            // extend the reference universe if the run touched something unexpected
            let seen = universe(&o.record);
            if seen.iter().any(|l| !uni.contains(l)) {
                for l in seen {
                    if l.starts_with("S:") {
                        let r = format!("R:{}", l.split(':').nth(1).unwrap());
                        if !uni.contains(&r) {
                            uni.push(r);
                        }
                    }
                    if !uni.contains(&l) {
                        uni.push(l);
                    }
                }
                uni.sort();
                reference = sched::reference(&s, &uni, faulty_ref);
            }
            let mut evs = trace_events(&s, &o.record);
            // what the caller of execute() got back: the observation at the public call's return
            if s.fault.is_none() && !matches!(&o.result, Err((k, _)) if *k == usize::MAX) {
                evs.push(json!({"l": "M_Ret", "t": "main", "ok": o.result.is_ok(),
                    "err_tx": o.result.as_ref().err().map_or(-1, |e| e.0 as i64), "outcomes": o.outcomes.len()}));
            }
            let found = if sc["oracle"].as_str() == Some("policy") {
                if policy_other.is_none() {
                    policy_other = Some(run_plain(&s, 1, true, 0, false));
                }
                policy_monitors(&s, &o, policy_other.as_ref().unwrap())
            } else {
                let mut f = monitors(&s, &reference, &o);
                if sc["expect"].is_object() {
                    // the rule model must also agree with stock revm where the policy is inert
                    f.extend(sched::expect_monitors(&s, &o));
                }
                f
            };
            if a["policy"].as_str() == Some("guide") {
                guided.push(json!({"followed": o.record.guide_pos, "of": a["guide"].as_array().map_or(0, |g| g.len()),
                    "diverged": o.record.diverged}));
            }
            let header = json!({
                "name": s.name, "n": s.n, "workers": workers,
                "locs": uni.iter().map(|l| loc_name(&s, l)).collect::<Vec<_>>(),
                "resetOf": uni.iter().map(|l| {
                    let parts: Vec<&str> = l.split(':').collect();
                    let r = format!("R:{}", parts[1]);
                    (loc_name(&s, l), json!(if parts[0] == "S" && uni.contains(&r) { loc_name(&s, &r) } else { "none".to_owned() }))
                }).collect::<serde_json::Map<_, _>>(),
                "ref": reference.states.iter().map(|m| m.iter().map(|(l, v)| (loc_name(&s, l), json!(v))).collect::<serde_json::Map<_, _>>()).collect::<Vec<_>>(),
                "nonce_check": !cfg_env_of(&s).disable_nonce_check,
                "refkind": reference.steps.iter().map(|st| match &st.outcome { Some(TxExecutionOutcome::Executed(_)) => "executed", _ => "skipped" }).collect::<Vec<_>>(),
                "fatal_at": reference.error.as_ref().map_or(s.n as i64, |(k, _)| *k as i64),
                "result": match &o.result { Ok(()) => json!("ok"), Err((k, e)) => json!({"err": k, "text": e}) },
            });
            if sample.is_null() {
                sample = json!({"header": header, "schedule_len": o.record.schedule.len(), "events": evs.iter().take(40).collect::<Vec<_>>()});
            }
            if found.is_empty() {
                out.run(header, &evs);
            } else if violations.len() < 8 {
                for (prop, what) in found {
                    violations.push(json!({"property": prop, "what": what, "scenario": sc, "seed": run_seed, "workers": workers,
                        "schedule": o.record.schedule, "events": evs.iter().rev().take(120).rev().collect::<Vec<_>>(),
                        // every event of every enabled hook group (debugging aid for `check replay`)
                        "raw_events": if a["raw_events"].as_bool() == Some(true) { o.record.events.iter().map(|e| e.to_json()).collect::<Vec<_>>() } else { vec![] }}));
                }
            }
        }
        let ref_kinds: Vec<&str> = reference.outcomes.iter().map(sched::outcome_kind).collect();
        per.push(json!({"scenario": s.name, "runs": runs, "distinct_schedules": distinct.len(), "steps": steps,
            "sample": sample, "guided": guided, "ref_kinds": ref_kinds, "ref_error": reference.error.as_ref().map(|e| e.0)}));
    }
    json!({"scenarios": per, "violations": violations, "trace_runs": out.runs, "trace_events": out.events})
}

/// C06: the observable of a block under a matrix of configurations (uncontrolled real threads).
fn cmd_matrix(a: &Value) -> Value {
    use sched::*;
    let repeat = a["repeat"].as_u64().unwrap_or(2) as usize;
    let mut runs = 0usize;
    let mut violations = Vec::new();
    let mut sample = Value::Null;
    let mut nconf = 0usize;
    for sc in a["scenarios"].as_array().unwrap() {
        let s = Scenario::from_json(sc);
        let n = s.txs.as_ref().map_or(s.n, |t| t.len());
        // (workers, force_sequential, min_parallel_txs, fallback_sequential entry point)
        let mut configs: Vec<(usize, bool, usize, bool)> = vec![
            (1, false, 0, false), (2, false, 0, false), (3, false, 0, false), (8, false, 0, false),
            (2, false, n, false), (2, false, n + 1, false), (2, true, 0, false), (1, true, 0, false), (2, false, 0, true),
        ];
        nconf = configs.len();
        let mut seen: Vec<(String, (usize, bool, usize, bool))> = Vec::new();
        for _ in 0..repeat {
            for c in configs.iter_mut() {
                let (r, outcomes, bundle) = run_plain(&s, c.0, c.1, c.2, c.3);
                runs += 1;
                // the observable: success / failing index + error, every outcome, the bundle
                let mut accounts: Vec<String> = bundle.state.iter().map(|(k, v)| format!("{k:x}:{:?}:{:?}:{:?}:{:?}", v.info.as_ref().map(|i| (i.balance, i.nonce, i.code_hash)), v.original_info.as_ref().map(|i| (i.balance, i.nonce, i.code_hash)), v.status, {
                    let mut st: Vec<_> = v.storage.iter().map(|(k, s)| (*k, s.present_value, s.previous_or_original_value)).collect();
                    st.sort();
                    st
                })).collect();
                accounts.sort();
                let mut contracts: Vec<String> = bundle.contracts.keys().map(|k| format!("{k:x}")).collect();
                contracts.sort();
                let obs = format!("{r:?}|{outcomes:?}|{accounts:?}|{contracts:?}|{}|{}", bundle.state_size, bundle.reverts_size);
                let digest = format!("{:x}", revm_primitives::keccak256(obs.as_bytes()));
                if sample.is_null() {
                    sample = json!({"scenario": s.name, "config": format!("{c:?}"), "result": format!("{r:?}"), "outcomes": outcomes.len(), "digest": digest});
                }
                if let Some((d0, c0)) = seen.first() &&
                    *d0 != digest &&
                    violations.len() < 8
                {
                    violations.push(json!({"scenario": s.name,
                        "what": format!("block {}: configuration {:?} gives result {:?} / {} outcomes ({}), configuration {:?} gave a different observable ({})",
                            s.name, c, r, outcomes.len(), &digest[..12], c0, &d0[..12]),
                        "configs": [format!("{c0:?}"), format!("{c:?}")]}));
                }
                seen.push((digest, *c));
            }
        }
    }
    json!({"runs": runs, "configs": nconf, "violations": violations, "sample": sample})
}

/// C14: several callers race the entry points of ONE scheduler.
fn cmd_entry(a: &Value) -> Value {
    use sched::*;
    let groups = groups_of(&a["groups"]);
    let mut out = TraceOut::new(a["out"].as_str().unwrap());
    let sc = &a["scenario"];
    let s = Scenario::from_json(sc);
    let entries: Vec<String> = a["entries"].as_array().unwrap().iter().map(|e| e.as_str().unwrap().to_owned()).collect();
    let reference = sched::reference(&s, &[], false);
    let workers = a["workers"].as_u64().unwrap_or(1) as usize;
    let mut res = drive(
        a,
        groups,
        group::ENTRY | 0x8000_0000,
        |cfg| {
            let db = std::sync::Arc::new(FaultDb::new(database(&s), None));
            let scheduler = std::sync::Arc::new(grevm::Scheduler::new_with_runtime_config(
                cfg_env_of(&s),
                block_env(),
                std::sync::Arc::new(transactions(&s)),
                grevm::ParallelState::new(db, true, false),
                Some(std::sync::Arc::new(vec![(driver(), driver_precompile(&s))])),
                grevm::GrevmConfig {
                    concurrency_level: workers,
                    force_sequential: a["force_sequential"].as_bool().unwrap_or(false),
                    min_parallel_txs: 0,
                    delegated_safety: grevm::DelegatedSafetyConfig::disabled(),
                },
            ));
            let results = std::sync::Arc::new(std::sync::Mutex::new(Vec::new()));
            let mut roots: Vec<(String, Body)> = Vec::new();
            for (k, e) in entries.iter().enumerate() {
                let (sch, results, e) = (scheduler.clone(), results.clone(), e.clone());
                roots.push((
                    format!("m{k}"),
                    Box::new(move |ctl| {
                        let r = match e.as_str() {
                            "fallback_sequential" => sch.fallback_sequential(),
                            "parallel_execute" => sch.parallel_execute(Some(1)),
                            _ => sch.execute(),
                        };
                        let ok = r.is_ok();
                        let once = r.as_ref().err().is_some_and(|e| format!("{:?}", e.error).contains("execute only once"));
                        if ok {
                            ctl.user_emit("M_Run", vec![]);
                        }
                        ctl.user_emit("M_Return", vec![("ok", grevm::verif::Val::B(ok))]);
                        results.lock().unwrap().push((k, ok, once));
                    }),
                ));
            }
            let record = run_roots(cfg, roots);
            let results = results.lock().unwrap().clone();
            let scheduler = std::sync::Arc::try_unwrap(scheduler).ok().expect("all callers returned");
            let (outcomes, mut state) = scheduler.take_result_and_state();
            let bundle = grevm::ParallelTakeBundle::parallel_take_bundle(&mut state, revm_database::states::bundle_state::BundleRetention::Reverts);
            let winners = results.iter().filter(|r| r.1).count();
            let elections = record.events.iter().filter(|e| e.label == "M_RunOnce" && e.boolean("won") == Some(true)).count();
            let violation = if let Some(v) = &record.verdict {
                Some(format!("callers cannot make progress: {v:?}"))
            } else if elections > 1 {
                Some(format!("{elections} callers were elected to run the block: {results:?}"))
            } else if winners != 1 {
                Some(format!("{winners} callers executed the block (expected exactly one): {results:?}"))
            } else if results.iter().any(|r| !r.1 && !r.2) {
                Some(format!("a losing caller did not get the execute-only-once error: {results:?}"))
            } else if outcomes != reference.outcomes {
                Some(format!("outcomes differ from a single in-order run: {} vs {}", outcomes.len(), reference.outcomes.len()))
            } else {
                bundle_diff(&reference.bundle, &bundle).map(|d| format!("state differs from a single in-order run: {d}"))
            };
            (record, json!({"entries": entries, "scenario": s.name}), violation)
        },
        &mut out,
    );
    res["trace_runs"] = json!(out.runs);
    res["trace_events"] = json!(out.events);
    res
}

fn cmd_hist(a: &Value) -> Value {
    let groups = groups_of(&a["groups"]);
    let mut out = TraceOut::new(a["out"].as_str().unwrap());
    let mut all = Vec::new();
    for sc in a["scripts"].as_array().unwrap() {
        let script = HistScript {
            anchor: sc["anchor"].as_i64().unwrap(),
            near_max: sc["near_max"].as_bool().unwrap_or(false),
            ops: sc["ops"].as_array().unwrap().iter().map(|w| {
                w.as_array().unwrap().iter().map(|o| {
                    if o[0].as_str() == Some("rec") {
                        HistOp::Rec(o[1].as_u64().unwrap() as usize, o[2].as_str().unwrap().to_owned(), o[3].as_i64().unwrap())
                    } else {
                        HistOp::Inv(o[1].as_u64().unwrap() as usize)
                    }
                }).collect()
            }).collect(),
        };
        let header = json!({"name": sc["name"], "anchor": script.anchor,
            "ops": sc["ops"].as_array().unwrap().iter().map(|w| w.as_array().unwrap().iter().map(|o| {
                if o[0].as_str() == Some("rec") { json!({"op": "rec", "inc": o[1], "k": o[2], "v": o[3]}) }
                else { json!({"op": "inv", "inc": o[1], "k": "est", "v": 0}) }
            }).collect::<Vec<_>>()).collect::<Vec<_>>()});
        let mut res = drive(
            a,
            groups,
            group::HIST,
            |cfg| {
                let o = hist_probe(cfg, &script);
                let violation = if let Some(v) = &o.record.verdict {
                    Some(format!("history probe cannot make progress: {v:?}"))
                } else if o.valid && o.value != Some(o.expected) {
                    Some(format!("a validated beneficiary read observed {:?}, in-order value is {}", o.value, o.expected))
                } else if !o.final_ok {
                    Some("the newest incarnation is not what the history holds at the end".to_owned())
                } else {
                    None
                };
                (o.record, header.clone(), violation)
            },
            &mut out,
        );
        res["script"] = sc.clone();
        all.push(res);
    }
    json!({"scripts": all, "trace_runs": out.runs, "trace_events": out.events})
}

fn main() {
    let args: Vec<String> = std::env::args().collect();
    if args.len() < 3 {
        eprintln!("usage: vh <wait|cursor|dep|...> '<json>' (or @file)");
        std::process::exit(2);
    }
    let text = if let Some(path) = args[2].strip_prefix('@') {
        std::fs::read_to_string(path).expect("args file")
    } else {
        args[2].clone()
    };
    let a: Value = serde_json::from_str(&text).expect("json args");
    let res = match args[1].as_str() {
        "wait" => cmd_wait(&a),
        "cursor" => cmd_cursor(&a),
        "dep" => cmd_dep(&a),
        "sched" => cmd_sched(&a),
        "hist" => cmd_hist(&a),
        "entry" => cmd_entry(&a),
        "matrix" => cmd_matrix(&a),
        "statehist" => statehist::cmd(&a),
        "lifecycle" => statehist::cmd_lifecycle(&a),
        other => {
            eprintln!("unknown command {other}");
            std::process::exit(2);
        }
    };
    println!("{res}");
}
