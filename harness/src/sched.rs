//! Scheduler scenarios: a block of real transactions whose behaviour is a small program
//! interpreted by a custom precompile through the state facade (P-driver), run through the real
//! `Scheduler` under the step controller and compared with an in-order stock-revm run.

use crate::controller::{Config, Controller, Event, RunRecord, Verdict};
use alloy_evm::{EthEvm, Evm, precompiles::PrecompilesMap};
use grevm::{
    DelegatedSafetyConfig, DynParallelPrecompile, GrevmConfig, ParallelPrecompileError, ParallelState,
    ParallelTakeBundle, Scheduler, TxExecutionOutcome,
    test_utils::common::{account, storage::InMemoryDB},
    verif::{self, Val, digest},
};
use revm::{
    Context, DatabaseCommit, DatabaseRef, MainBuilder, MainContext,
    handler::EthPrecompiles,
    precompile::{PrecompileError, PrecompileId, PrecompileOutput},
};
use revm_context::{
    BlockEnv, CfgEnv, TxEnv,
    result::{EVMError, ExecutionResult},
};
use revm_database::{BundleState, PlainAccount, StateBuilder, states::bundle_state::BundleRetention};
use revm_primitives::{
    Address, B256, Bytes, HashMap, KECCAK_EMPTY, TxKind, U256, alloy_primitives::U160, hardfork::SpecId,
};
use revm_state::{AccountInfo, Bytecode};
use serde_json::{Value, json};
use std::{
    collections::BTreeMap,
    sync::{Arc, Mutex},
};

#[derive(Clone, Debug)]
pub enum Ins {
    R(usize, usize),
    W(usize, usize, u64),
    Jeq(usize, u64, usize),
    Fail(String),
}

#[derive(Clone, Debug)]
pub struct Scenario {
    pub name: String,
    pub n: usize,
    pub locs: Vec<String>,
    pub pre: Vec<u64>,
    pub progs: Vec<Vec<Ins>>,
    pub raw: Value,
}

impl Scenario {
    pub fn from_json(v: &Value) -> Self {
        let locs: Vec<String> =
            v["locs"].as_array().unwrap().iter().map(|s| s.as_str().unwrap().to_owned()).collect();
        let li = |s: &Value| locs.iter().position(|l| l == s.as_str().unwrap()).expect("loc");
        let progs = v["progs"]
            .as_array()
            .unwrap()
            .iter()
            .map(|p| {
                p.as_array()
                    .unwrap()
                    .iter()
                    .map(|i| {
                        let a = i.as_array().unwrap();
                        match a[0].as_str().unwrap() {
                            "r" => Ins::R(li(&a[1]), a[2].as_u64().unwrap() as usize),
                            "w" => Ins::W(li(&a[1]), a[2].as_u64().unwrap() as usize, a[3].as_u64().unwrap()),
                            "jeq" => Ins::Jeq(
                                a[1].as_u64().unwrap() as usize,
                                a[2].as_u64().unwrap(),
                                a[3].as_u64().unwrap() as usize,
                            ),
                            "fail" => Ins::Fail(a[1].as_str().unwrap().to_owned()),
                            o => panic!("bad instruction {o}"),
                        }
                    })
                    .collect()
            })
            .collect();
        Scenario {
            name: v["name"].as_str().unwrap_or("?").to_owned(),
            n: v["n"].as_u64().unwrap() as usize,
            pre: locs.iter().map(|l| v["pre"][l].as_u64().unwrap_or(0)).collect(),
            locs,
            progs,
            raw: v.clone(),
        }
    }
}

pub fn holder() -> Address {
    Address::from(U160::from(990_001u64))
}
pub fn driver() -> Address {
    Address::from(U160::from(990_002u64))
}

/// Short names for the addresses a scenario uses (events carry raw hex).
pub fn names(s: &Scenario) -> Vec<(String, String)> {
    let mut m = vec![
        (format!("{:x}", holder()), "h".to_owned()),
        (format!("{:x}", driver()), "pc".to_owned()),
        (format!("{:x}", account::MINER_ADDRESS), "ben".to_owned()),
    ];
    for i in 0..s.n {
        m.push((format!("{:x}", account::mock_eoa_address(i)), format!("e{i}")));
    }
    m
}

/// `S:<holder>:<slot>` -> model location name; other locations `B.e0`, `C.h`, ...
pub fn loc_name(s: &Scenario, raw: &str) -> String {
    let parts: Vec<&str> = raw.split(':').collect();
    let nm = names(s);
    let addr = nm.iter().find(|(a, _)| a == parts[1]).map_or(parts[1].to_owned(), |(_, n)| n.clone());
    if parts[0] == "S" && addr == "h" {
        if let Ok(i) = usize::from_str_radix(parts[2], 16) &&
            i < s.locs.len()
        {
            return s.locs[i].clone();
        }
    }
    match parts.len() {
        3 => format!("{}.{}.{}", parts[0], addr, parts[2]),
        _ => format!("{}.{}", parts[0], addr),
    }
}

pub fn database(s: &Scenario) -> InMemoryDB {
    let mut accounts = account::mock_block_accounts(s.n);
    accounts.insert(
        holder(),
        PlainAccount {
            info: AccountInfo { nonce: 1, code_hash: KECCAK_EMPTY, code: None, ..Default::default() },
            storage: s.pre.iter().enumerate().map(|(i, v)| (U256::from(i), U256::from(*v))).collect(),
        },
    );
    // the driver address is an existing (non-empty) account, so that calling it touches nothing
    accounts.insert(
        driver(),
        PlainAccount {
            info: AccountInfo { nonce: 1, code_hash: KECCAK_EMPTY, code: None, ..Default::default() },
            storage: Default::default(),
        },
    );
    InMemoryDB::new(accounts, HashMap::default(), HashMap::default())
}

pub fn transactions(s: &Scenario) -> Vec<TxEnv> {
    (0..s.n)
        .map(|i| TxEnv {
            caller: account::mock_eoa_address(i),
            kind: TxKind::Call(driver()),
            data: Bytes::from(vec![i as u8]),
            gas_limit: 300_000,
            gas_price: 1,
            nonce: 1,
            ..Default::default()
        })
        .collect()
}

/// The P-driver: interprets program `data[0]` through the journal-aware facade.
pub fn driver_precompile(s: &Scenario) -> DynParallelPrecompile {
    let progs = s.progs.clone();
    DynParallelPrecompile::new(PrecompileId::Custom("verif-driver".into()), move |input| {
        let reservoir = input.reservoir();
        let prog = &progs[input.data()[0] as usize];
        let mut regs = [0u64; 3];
        let mut ip = 0usize;
        while ip < prog.len() {
            match &prog[ip] {
                Ins::R(l, r) => {
                    let v = input.state().sload(holder(), U256::from(*l))?.data;
                    regs[*r] = v.try_into().unwrap_or(u64::MAX);
                    ip += 1;
                }
                Ins::W(l, r, add) => {
                    let v = if *r == 0 { 0 } else { regs[*r] } + add;
                    input.state().sstore(holder(), U256::from(*l), U256::from(v))?;
                    ip += 1;
                }
                Ins::Jeq(r, v, target) => {
                    ip = if regs[*r] == *v { *target - 1 } else { ip + 1 };
                }
                Ins::Fail(kind) => {
                    return Err(ParallelPrecompileError::Fatal(PrecompileError::Fatal(format!(
                        "scripted {kind}"
                    ))));
                }
            }
        }
        Ok(PrecompileOutput::new(0, Bytes::new(), reservoir))
    })
}

pub fn cfg_env() -> CfgEnv {
    CfgEnv::new_with_spec(SpecId::SHANGHAI)
}
pub fn block_env() -> BlockEnv {
    BlockEnv { beneficiary: account::MINER_ADDRESS, ..Default::default() }
}

/// One step of the in-order reference.
#[derive(Clone, Debug)]
pub struct RefStep {
    pub outcome: Option<TxExecutionOutcome>,
    pub result_digest: String,
    pub delta: Vec<String>,
}

pub struct Reference {
    pub steps: Vec<RefStep>,
    /// `Some((k, text))` if in-order execution fails fatally at k.
    pub error: Option<(usize, String)>,
    pub outcomes: Vec<TxExecutionOutcome>,
    pub bundle: BundleState,
    /// Value digest of every universe location before tx k (k = 0..=len(steps)).
    pub states: Vec<BTreeMap<String, String>>,
}

fn loc_value<DB: DatabaseRef>(db: &DB, raw: &str) -> String
where
    DB::Error: std::fmt::Debug,
{
    let parts: Vec<&str> = raw.split(':').collect();
    let addr: Address = parts[1].parse().unwrap_or_else(|_| format!("0x{}", parts[1]).parse().unwrap());
    match parts[0] {
        "B" => digest::info(db.basic_ref(addr).unwrap().as_ref()),
        "S" => format!("{:x}", db.storage_ref(addr, U256::from_str_radix(parts[2], 16).unwrap()).unwrap()),
        "C" => db.basic_ref(addr).unwrap().map_or("none".into(), |i| format!("code:{:x}", i.code_hash)),
        _ => "none".into(),
    }
}

/// Stock revm, in order, skipping invalid transactions, the same precompile adapter installed.
pub fn reference(s: &Scenario, universe: &[String]) -> Reference {
    let db = database(s);
    let state = StateBuilder::new().with_bundle_update().with_database_ref(db).build();
    let spec = cfg_env().spec;
    let mut evm = Context::mainnet()
        .with_db(state)
        .with_cfg(cfg_env())
        .with_block(block_env())
        .build_mainnet_with_inspector(revm_inspector::NoOpInspector {})
        .with_precompiles(PrecompilesMap::from_static(EthPrecompiles::new(spec).precompiles));
    let p = driver_precompile(s).to_alloy();
    evm.precompiles.apply_precompile(&driver(), move |_| Some(p));
    let mut evm = EthEvm::new(evm, false);
    let snapshot = |evm: &mut EthEvm<_, _, _>| -> BTreeMap<String, String> {
        universe.iter().map(|l| (l.clone(), loc_value(evm.db_mut(), l))).collect()
    };
    let mut steps = Vec::new();
    let mut outcomes = Vec::new();
    let mut states = vec![snapshot(&mut evm)];
    let mut error = None;
    for (k, tx) in transactions(s).into_iter().enumerate() {
        match evm.transact_raw(tx) {
            Ok(rs) => {
                steps.push(RefStep {
                    outcome: Some(TxExecutionOutcome::Executed(rs.result.clone())),
                    result_digest: digest::result_digest(&rs.result),
                    delta: digest::state_digest(&rs.state),
                });
                outcomes.push(TxExecutionOutcome::Executed(rs.result));
                evm.db_mut().commit(rs.state);
            }
            Err(EVMError::Transaction(t)) => {
                steps.push(RefStep { outcome: Some(TxExecutionOutcome::Skipped(t.clone())), result_digest: format!("{t:?}"), delta: vec![] });
                outcomes.push(TxExecutionOutcome::Skipped(t));
            }
            Err(e) => {
                error = Some((k, format!("{e:?}")));
                break;
            }
        }
        states.push(snapshot(&mut evm));
    }
    evm.db_mut().merge_transitions(BundleRetention::Reverts);
    let bundle = evm.db_mut().take_bundle();
    Reference { steps, error, outcomes, bundle, states }
}

pub fn bundle_diff(left: &BundleState, right: &BundleState) -> Option<String> {
    let l: BTreeMap<_, _> = left.state.iter().collect();
    let r: BTreeMap<_, _> = right.state.iter().collect();
    if l.keys().collect::<Vec<_>>() != r.keys().collect::<Vec<_>>() {
        return Some(format!("bundle accounts differ: {:?} vs {:?}", l.keys(), r.keys()));
    }
    for (a, x) in &l {
        let y = r[a];
        if x.info != y.info || x.original_info != y.original_info || x.status != y.status {
            return Some(format!("bundle account {a:x}: {:?}/{:?} vs {:?}/{:?}", x.info, x.status, y.info, y.status));
        }
        let xs: BTreeMap<_, _> = x.storage.iter().collect();
        let ys: BTreeMap<_, _> = y.storage.iter().collect();
        if xs != ys {
            return Some(format!("bundle storage of {a:x}: {xs:?} vs {ys:?}"));
        }
    }
    let lc: std::collections::BTreeSet<_> = left.contracts.keys().collect();
    let rc: std::collections::BTreeSet<_> = right.contracts.keys().collect();
    if lc != rc {
        return Some("bundle contracts differ".into());
    }
    if left.reverts.len() != right.reverts.len() {
        return Some("bundle revert block count differs".into());
    }
    for (lb, rb) in left.reverts.iter().zip(right.reverts.iter()) {
        let lm: BTreeMap<_, _> = lb.iter().map(|(a, r)| (a, r)).collect();
        let rm: BTreeMap<_, _> = rb.iter().map(|(a, r)| (a, r)).collect();
        if lm != rm {
            return Some(format!("bundle reverts differ: {lm:?} vs {rm:?}"));
        }
    }
    if left.state_size != right.state_size || left.reverts_size != right.reverts_size {
        return Some(format!(
            "bundle size accounting differs: {}/{} vs {}/{}",
            left.state_size, left.reverts_size, right.state_size, right.reverts_size
        ));
    }
    None
}

pub struct SchedOutcome {
    pub record: RunRecord,
    pub result: Result<(), (usize, String)>,
    pub outcomes: Vec<TxExecutionOutcome>,
    pub bundle: BundleState,
}

/// Run the real scheduler on the scenario under the controller.
pub fn run_scheduler(s: &Scenario, cfg: Config, workers: usize, force_sequential: bool,
                     fatal: Arc<Mutex<Option<(Verdict, RunRecord)>>>) -> SchedOutcome {
    let ctl = Controller::new(cfg);
    let f2 = fatal.clone();
    ctl.on_fatal(move |v, rec| {
        *f2.lock().unwrap() = Some((v.clone(), rec.clone()));
        // The threads of this run are stuck by construction; the caller's fatal hook (installed
        // by main) reports and exits.
        crate::fatal_exit();
    });
    let db = Arc::new(database(s));
    let scheduler = Scheduler::new_with_runtime_config(
        cfg_env(),
        block_env(),
        Arc::new(transactions(s)),
        ParallelState::new(db, true, false),
        Some(Arc::new(vec![(driver(), driver_precompile(s))])),
        GrevmConfig {
            concurrency_level: workers,
            force_sequential,
            min_parallel_txs: 0,
            delegated_safety: DelegatedSafetyConfig::disabled(),
        },
    );
    verif::install(ctl.clone());
    ctl.register_single_root("main");
    let result = scheduler.execute();
    ctl.finish_root();
    verif::uninstall();
    let (outcomes, mut state) = scheduler.take_result_and_state();
    let bundle = state.parallel_take_bundle(BundleRetention::Reverts);
    SchedOutcome {
        record: ctl.record(),
        result: result.map_err(|e| (e.txid, format!("{:?}", e.error))),
        outcomes,
        bundle,
    }
}

/// Harness-side monitors: the property statements evaluated on one observed run.
pub fn monitors(s: &Scenario, reference: &Reference, o: &SchedOutcome) -> Vec<(String, String)> {
    let mut v: Vec<(String, String)> = Vec::new();
    // C02: every commit event equals step k of the reference, in order, once
    let mut next = 0usize;
    for e in o.record.events.iter().filter(|e| e.label == "C_Apply") {
        let k = e.int("tx").unwrap() as usize;
        if k != next {
            v.push(("C02".into(), format!("commit of tx {k} while the committed prefix was {next}")));
        }
        next = k + 1;
        match reference.steps.get(k) {
            None => v.push(("C02".into(), format!("commit of tx {k} beyond the reference (in-order fails at {:?})", reference.error))),
            Some(step) => {
                let delta: Vec<String> = match e.get("delta") {
                    Some(Val::L(l)) => l.iter().map(|x| if let Val::S(s) = x { s.clone() } else { String::new() }).collect(),
                    _ => vec![],
                };
                if step.outcome.as_ref().is_some_and(|o| matches!(o, TxExecutionOutcome::Skipped(_))) {
                    v.push(("C03".into(), format!("tx {k} was committed but in-order validation rejects it")));
                } else if delta != step.delta || e.string("result") != Some(step.result_digest.as_str()) {
                    v.push(("C02".into(), format!(
                        "commit {k} differs from the in-order effect: committed {:?} / {:?}, in-order {:?} / {}",
                        delta, e.string("result"), step.delta, step.result_digest)));
                }
            }
        }
    }
    // C01 / C03 / C04: the final observable
    match (&o.result, &reference.error) {
        (Ok(()), None) => {
            if o.outcomes != reference.outcomes {
                let kinds = |x: &Vec<TxExecutionOutcome>| x.iter().map(|o| matches!(o, TxExecutionOutcome::Executed(_))).collect::<Vec<_>>();
                let prop = if kinds(&o.outcomes) != kinds(&reference.outcomes) { "C03" } else { "C01" };
                v.push((prop.into(), format!("outcomes differ from in-order execution: {:?} vs {:?}", o.outcomes, reference.outcomes)));
            }
            if let Some(d) = bundle_diff(&reference.bundle, &o.bundle) {
                v.push(("C01".into(), d));
            }
        }
        (Err((k, e)), None) => {
            v.push(("C04".into(), format!("execute() returned Err(tx {k}: {e}) although in-order execution completes")));
        }
        (Ok(()), Some((k, e))) => {
            v.push(("C04".into(), format!("execute() returned Ok although in-order execution fails at tx {k}: {e}")));
        }
        (Err((k, _e)), Some((rk, _re))) => {
            if k != rk {
                v.push(("C04".into(), format!("error reported for tx {k}, in-order execution fails at tx {rk}")));
            }
            if o.outcomes.len() != *rk || o.outcomes[..] != reference.outcomes[..(*rk).min(reference.outcomes.len())] {
                v.push(("C04".into(), format!("outcomes after the error are not the first {rk} in-order outcomes: {} returned", o.outcomes.len())));
            }
            if let Some(d) = bundle_diff(&reference.bundle, &o.bundle) {
                v.push(("C04".into(), format!("state after the error is not the in-order prefix: {d}")));
            }
        }
    }
    let _ = s;
    v
}

/// SCHED events rendered for GrevmTrace: labels the specification knows, locations by name.
pub fn trace_events(s: &Scenario, rec: &RunRecord) -> Vec<Value> {
    const KEEP: &[&str] = &[
        "W_Loop", "W_ValClaim", "W_ValLock", "D_Next", "W_ExecTask", "D_Remove", "E_Begin", "R_Read",
        "P_Pub", "E_Done", "P_Unpub", "P_Est", "D_Add", "E_HeadCheck", "D_KeyTx", "X_Publish",
        "T_Rewind1", "T_Rewind2", "E_End", "V_Begin", "V_Ts", "V_Scan", "T_Unconf", "V_End", "V_Notify",
        "N_Notify", "N_Register", "N_Park", "F_Loop", "F_ValLoad", "F_Lock", "F_Decide", "F_Final", "F_Publish",
        "F_Pred", "C_Loop", "C_FinLoad", "C_Take", "C_Apply", "C_Publish", "D_Commit", "C_Pred", "A_Abort",
        "A_Cancel", "M_Post", "S_Tx", "M_Path",
    ];
    let mut out = Vec::new();
    for e in rec.events.iter().filter(|e: &&Event| e.group & verif::group::SCHED != 0 && KEEP.contains(&e.label)) {
        // the beneficiary history is not part of the scheduler specification (Beneficiary.tla)
        if matches!(e.label, "R_Read") && e.string("ver").is_some_and(|v| v.starts_with("ben")) {
            continue;
        }
        if e.label == "V_Scan" && e.string("had").is_some_and(|v| v.starts_with("ben")) {
            continue;
        }
        let mut j = e.to_json();
        if let Some(l) = e.string("loc") {
            j["loc"] = json!(loc_name(s, l));
        }
        if e.label == "E_Done" {
            if let Some(Val::L(w)) = e.get("writes") {
                j["writes"] = json!(w.iter().filter_map(|x| if let Val::S(x) = x { Some(loc_name(s, x)) } else { None }).collect::<Vec<_>>());
            }
            j.as_object_mut().unwrap().remove("reads");
        }
        // a storage read consults the reset marker first: two lookups, two records
        if e.label == "R_Read" && let Some(reset) = e.string("reset") {
            let raw = e.string("loc").unwrap();
            let addr = raw.split(':').nth(1).unwrap();
            let mut r = j.clone();
            r["loc"] = json!(loc_name(s, &format!("R:{addr}")));
            r["ver"] = json!(reset);
            r["val"] = json!(if reset == "st" { "none" } else { "reset" });
            r["est"] = json!(e.boolean("reset_est").unwrap_or(false));
            out.push(r);
        }
        out.push(j);
    }
    out
}

/// Raw location strings that appear in a run (the universe for reference states).
pub fn universe(rec: &RunRecord) -> Vec<String> {
    let mut u: std::collections::BTreeSet<String> = Default::default();
    for e in &rec.events {
        if let Some(l) = e.string("loc") {
            u.insert(l.to_owned());
        }
    }
    u.into_iter().collect()
}

pub fn unused(_: B256, _: Bytecode) {}
