//! Scheduler scenarios: a block of real transactions whose behaviour is a small program
//! interpreted by a custom precompile through the state facade (P-driver), run through the real
//! `Scheduler` under the step controller and compared with an in-order stock-revm run.

use crate::controller::{Config, Controller, Event, RunRecord, Verdict};
use alloy_evm::{EthEvm, Evm, precompiles::PrecompilesMap};
use grevm::{
    DelegatedSafetyConfig, DynParallelPrecompile, GrevmConfig, ParallelPrecompileError, ParallelState,
    ParallelTakeBundle, Scheduler, TxExecutionOutcome,
    test_utils::common::{account, storage::InMemoryDB},
    verif::{self, Val, digest},
};
use revm::{
    Context, DatabaseCommit, DatabaseRef, MainBuilder, MainContext,
    handler::EthPrecompiles,
    precompile::{PrecompileError, PrecompileId, PrecompileOutput},
};
use revm_context::{
    BlockEnv, CfgEnv, TxEnv,
    result::{EVMError, ExecutionResult},
};
use revm_database::{BundleState, PlainAccount, StateBuilder, states::bundle_state::BundleRetention};
use revm_primitives::{
    Address, B256, Bytes, HashMap, KECCAK_EMPTY, TxKind, U256, alloy_primitives::U160, hardfork::SpecId,
};
use revm_state::{AccountInfo, Bytecode};
use serde_json::{Value, json};
use std::{
    collections::BTreeMap,
    sync::{Arc, Mutex},
};

#[derive(Clone, Debug)]
pub enum Ins {
    R(usize, usize),
    W(usize, usize, u64),
    Jeq(usize, u64, usize),
    Fail(String),
    /// reg := balance of the block beneficiary (through the facade)
    Rb(usize),
    /// read like `R`, but the implementation swallows a facade error and answers with a halt of its own
    Rs(usize, usize),
    /// read like `R`, but the implementation ignores a facade error altogether (continues with 0)
    Ri(usize, usize),
}

#[derive(Clone, Debug)]
pub struct Scenario {
    pub name: String,
    pub n: usize,
    pub locs: Vec<String>,
    pub pre: Vec<u64>,
    pub progs: Vec<Vec<Ins>>,
    pub raw: Value,
    /// (model location name or raw key, mode)
    pub fault: Option<(String, String)>,
    /// explicit transactions (plain transfers / calls) instead of one driver call per program
    pub txs: Option<Vec<TxSpec>>,
    /// initial balances of the externally owned accounts (default 10^18)
    pub balances: Vec<(usize, U256)>,
    pub nonces: Vec<(usize, u64)>,
    /// (address, slot) of every model location (default: holder / holder2 by position; `loc_map` overrides)
    pub slots: Vec<(Address, U256)>,
}

#[derive(Clone, Debug)]
pub struct AuthSpec {
    pub authority: String,
    pub target: String,
    pub nonce: u64,
    pub valid: bool,
}

#[derive(Clone, Debug)]
pub struct TxSpec {
    /// raw scenarios: named sender / receiver (`e3`, account name, `ben`, `pc`), calldata, create, authorisations
    pub from_name: Option<String>,
    pub data: Option<Vec<u8>>,
    pub create: bool,
    pub auth: Vec<AuthSpec>,
    /// index of an externally owned account, or usize::MAX for the block beneficiary
    pub from: usize,
    /// `e<k>` for an externally owned account, `pc` for the driver (then `prog` selects the program)
    pub to: String,
    pub value: U256,
    pub nonce: u64,
    pub gas_limit: u64,
    pub gas_price: u128,
    pub prog: u8,
}

pub fn hex_bytes(h: &str) -> Vec<u8> {
    let h = h.trim_start_matches("0x");
    (0..h.len() / 2).map(|i| u8::from_str_radix(&h[2 * i..2 * i + 2], 16).expect("hex")).collect()
}

/// Address of a name used in raw scenarios.
pub fn named(s: &Scenario, name: &str) -> Address {
    if let Some(k) = name.strip_prefix('e').and_then(|k| k.parse::<usize>().ok()) {
        return account::mock_eoa_address(k);
    }
    match name {
        "ben" => account::MINER_ADDRESS,
        "pc" => driver(),
        "h" => holder(),
        "h2" => holder2(),
        "rcv" => receiver(),
        "zero" => Address::ZERO,
        n if n.starts_with("c2:") => {
            // c2:<factory name>:<init code hex>  (salt 0)
            let mut it = n.splitn(3, ':');
            it.next();
            let factory = named(s, it.next().unwrap());
            let init = hex_bytes(it.next().unwrap());
            let mut buf = vec![0xff];
            buf.extend_from_slice(factory.as_slice());
            buf.extend_from_slice(&[0u8; 32]);
            buf.extend_from_slice(revm_primitives::keccak256(&init).as_slice());
            Address::from_slice(&revm_primitives::keccak256(buf)[12..])
        }
        n if n.starts_with("c1:") => {
            // c1:<sender name>:<nonce>  (CREATE address)
            let mut it = n.splitn(3, ':');
            it.next();
            let sender = named(s, it.next().unwrap());
            sender.create(it.next().unwrap().parse().unwrap())
        }
        _ => {
            let idx = s.raw["accounts"].as_array().and_then(|l| l.iter().position(|a| a["name"].as_str() == Some(name)))
                .unwrap_or_else(|| panic!("unknown account name {name}"));
            // `at`: the account sits at a computed address (e.g. the pre-funded target of a later CREATE)
            if let Some(at) = s.raw["accounts"][idx]["at"].as_str() {
                return named(s, at);
            }
            Address::from(U160::from(970_000u64 + idx as u64))
        }
    }
}

fn u256_of(v: &Value) -> U256 {
    match v {
        Value::String(s) => U256::from_str_radix(s, 10).expect("decimal value"),
        Value::Number(n) => U256::from(n.as_u64().unwrap()),
        _ => U256::ZERO,
    }
}

impl Scenario {
    pub fn from_json(v: &Value) -> Self {
        let locs: Vec<String> =
            v["locs"].as_array().unwrap().iter().map(|s| s.as_str().unwrap().to_owned()).collect();
        let li = |s: &Value| locs.iter().position(|l| l == s.as_str().unwrap()).expect("loc");
        let progs = v["progs"]
            .as_array()
            .unwrap()
            .iter()
            .map(|p| {
                p.as_array()
                    .unwrap()
                    .iter()
                    // "badnonce" is the specification's marker of a transaction whose nonce is wrong in block order;
                    // on the code the transaction itself carries the wrong nonce
                    .filter(|i| i[0].as_str() != Some("badnonce"))
                    .map(|i| {
                        let a = i.as_array().unwrap();
                        match a[0].as_str().unwrap() {
                            "r" => Ins::R(li(&a[1]), a[2].as_u64().unwrap() as usize),
                            "w" => Ins::W(li(&a[1]), a[2].as_u64().unwrap() as usize, a[3].as_u64().unwrap()),
                            "jeq" => Ins::Jeq(
                                a[1].as_u64().unwrap() as usize,
                                a[2].as_u64().unwrap(),
                                a[3].as_u64().unwrap() as usize,
                            ),
                            "fail" => Ins::Fail(a[1].as_str().unwrap().to_owned()),
                            "rb" => Ins::Rb(a[1].as_u64().unwrap() as usize),
                            "rs" => Ins::Rs(li(&a[1]), a[2].as_u64().unwrap() as usize),
                            "ri" => Ins::Ri(li(&a[1]), a[2].as_u64().unwrap() as usize),
                            o => panic!("bad instruction {o}"),
                        }
                    })
                    .collect()
            })
            .collect();
        let mut scn = Scenario {
            slots: vec![],
            name: v["name"].as_str().unwrap_or("?").to_owned(),
            n: v["n"].as_u64().unwrap() as usize,
            pre: locs.iter().map(|l| v["pre"][l].as_u64().unwrap_or(0)).collect(),
            fault: v["fault"].as_object().map(|f| {
                let key = f["key"].as_str().unwrap();
                let raw = match locs.iter().position(|l| l == key) {
                    Some(i) => {
                        let (a, k) = slot_of(&locs, i);
                        format!("S:{a:x}:{k:x}")
                    }
                    None => match key {
                        "ben" => format!("B:{:x}", account::MINER_ADDRESS),
                        "h" => format!("B:{:x}", holder()),
                        "pc" => format!("B:{:x}", driver()),
                        k if k.starts_with('e') => format!("B:{:x}", account::mock_eoa_address(k[1..].parse().unwrap())),
                        k => k.to_owned(),
                    },
                };
                (raw, f["mode"].as_str().unwrap().to_owned())
            }),
            txs: v["txs"].as_array().map(|l| {
                l.iter()
                    .map(|t| TxSpec {
                        from_name: t["from"].as_str().map(|x| x.to_owned()),
                        data: t["data"].as_str().map(|h| hex_bytes(h)),
                        create: t["to"].is_null() && t["create"].as_bool() == Some(true),
                        auth: t["auth"].as_array().map_or(vec![], |l| l.iter().map(|x| AuthSpec {
                            authority: x["authority"].as_str().unwrap().to_owned(),
                            target: x["target"].as_str().unwrap_or("zero").to_owned(),
                            nonce: x["nonce"].as_u64().unwrap_or(0),
                            valid: x["valid"].as_bool().unwrap_or(true),
                        }).collect()),
                        from: t["from"].as_u64().map_or(usize::MAX, |x| x as usize),
                        to: t["to"].as_str().unwrap_or("pc").to_owned(),
                        value: u256_of(&t["value"]),
                        nonce: t["nonce"].as_u64().unwrap_or(1),
                        gas_limit: t["gas_limit"].as_u64().unwrap_or(300_000),
                        gas_price: t["gas_price"].as_u64().unwrap_or(1) as u128,
                        prog: t["prog"].as_u64().unwrap_or(0) as u8,
                    })
                    .collect()
            }),
            balances: v["balances"].as_object().map_or(vec![], |m| {
                m.iter().map(|(k, b)| (k[1..].parse().unwrap(), u256_of(b))).collect()
            }),
            nonces: v["nonces"].as_object().map_or(vec![], |m| {
                m.iter().map(|(k, b)| (k[1..].parse().unwrap(), b.as_u64().unwrap())).collect()
            }),
            locs,
            progs,
            raw: v.clone(),
        };
        scn.slots = (0..scn.locs.len())
            .map(|l| match v["loc_map"][&scn.locs[l]].as_array() {
                Some(m) => (named(&scn, m[0].as_str().unwrap()), U256::from(m[1].as_u64().unwrap())),
                None => slot_of(&scn.locs, l),
            })
            .collect();
        scn
    }
}

/// Database wrapper that fails reads of one key: always (`persistent`) or only the first time (`once`).
#[derive(Debug)]
pub struct FaultDb {
    pub inner: InMemoryDB,
    /// raw location string (`B:<addr>`, `S:<addr>:<slot>`) and mode
    pub fault: Option<(String, String)>,
    pub hits: std::sync::atomic::AtomicUsize,
}

impl FaultDb {
    pub fn new(inner: InMemoryDB, fault: Option<(String, String)>) -> Self {
        Self { inner, fault, hits: std::sync::atomic::AtomicUsize::new(0) }
    }
    fn check(&self, key: &str) -> Result<(), grevm::test_utils::common::storage::CustomDBError> {
        if let Some((k, mode)) = &self.fault &&
            k == key
        {
            let n = self.hits.fetch_add(1, std::sync::atomic::Ordering::SeqCst);
            if mode == "panic" {
                panic!("injected panic at {key}");
            }
            if mode == "persistent" || n == 0 {
                return Err(grevm::test_utils::common::storage::CustomDBError::new(format!("injected fault at {key}")));
            }
        }
        Ok(())
    }
}

impl DatabaseRef for FaultDb {
    type Error = grevm::test_utils::common::storage::CustomDBError;
    fn basic_ref(&self, a: Address) -> Result<Option<AccountInfo>, Self::Error> {
        self.check(&format!("B:{a:x}"))?;
        self.inner.basic_ref(a)
    }
    fn code_by_hash_ref(&self, h: B256) -> Result<Bytecode, Self::Error> {
        self.inner.code_by_hash_ref(h)
    }
    fn storage_ref(&self, a: Address, i: U256) -> Result<U256, Self::Error> {
        self.check(&format!("S:{a:x}:{i:x}"))?;
        self.inner.storage_ref(a, i)
    }
    fn block_hash_ref(&self, n: u64) -> Result<B256, Self::Error> {
        self.inner.block_hash_ref(n)
    }
}

pub fn holder() -> Address {
    Address::from(U160::from(990_001u64))
}
pub fn driver() -> Address {
    Address::from(U160::from(990_002u64))
}
/// second storage holder: locations whose name starts with `q`
pub fn holder2() -> Address {
    Address::from(U160::from(990_003u64))
}
pub fn receiver() -> Address {
    Address::from(U160::from(990_009u64))
}
/// (address, slot) of a model location: position among the locations of the same holder
pub fn slot_of(locs: &[String], l: usize) -> (Address, U256) {
    let q = locs[l].starts_with('q');
    let idx = locs[..l].iter().filter(|n| n.starts_with('q') == q).count();
    (if q { holder2() } else { holder() }, U256::from(idx))
}

/// Short names for the addresses a scenario uses (events carry raw hex).
pub fn names(s: &Scenario) -> Vec<(String, String)> {
    let mut m = vec![
        (format!("{:x}", holder()), "h".to_owned()),
        (format!("{:x}", driver()), "pc".to_owned()),
        (format!("{:x}", holder2()), "h2".to_owned()),
        (format!("{:x}", receiver()), "rcv".to_owned()),
        (format!("{:x}", account::MINER_ADDRESS), "ben".to_owned()),
    ];
    for i in 0..(s.n + 6) {
        m.push((format!("{:x}", account::mock_eoa_address(i)), format!("e{i}")));
    }
    if let Some(list) = s.raw["accounts"].as_array() {
        for acc in list {
            let n = acc["name"].as_str().unwrap();
            m.push((format!("{:x}", named(s, n)), n.to_owned()));
        }
    }
    m
}

/// `S:<holder>:<slot>` -> model location name; other locations `B.e0`, `C.h`, ...
pub fn loc_name(s: &Scenario, raw: &str) -> String {
    let parts: Vec<&str> = raw.split(':').collect();
    let nm = names(s);
    let addr = nm.iter().find(|(a, _)| a == parts[1]).map_or(parts[1].to_owned(), |(_, n)| n.clone());
    if parts[0] == "S" {
        for (l, (a, k)) in s.slots.iter().enumerate() {
            if format!("{a:x}") == parts[1] && format!("{k:x}") == parts[2] {
                return s.locs[l].clone();
            }
        }
    }
    match parts.len() {
        3 => format!("{}.{}.{}", parts[0], addr, parts[2]),
        _ => format!("{}.{}", parts[0], addr),
    }
}

pub fn database(s: &Scenario) -> InMemoryDB {
    let eoas = s.txs.as_ref().map_or(s.n, |t| {
        t.iter().flat_map(|x| [if x.from == usize::MAX { 0 } else { x.from + 1 }, x.to.strip_prefix('e').and_then(|k| k.parse::<usize>().ok()).map_or(0, |k| k + 1)]).max().unwrap_or(s.n).max(s.n)
    });
    let mut accounts = account::mock_block_accounts(eoas);
    for (i, b) in &s.balances {
        if let Some(a) = accounts.get_mut(&account::mock_eoa_address(*i)) {
            a.info.balance = *b;
        }
    }
    for (i, n) in &s.nonces {
        if let Some(a) = accounts.get_mut(&account::mock_eoa_address(*i)) {
            a.info.nonce = *n;
        }
    }
    if s.raw["ben_absent"].as_bool() == Some(true) {
        accounts.remove(&account::MINER_ADDRESS);
    } else if let Some(b) = s.raw["ben_balance"].as_str() {
        let bal = match b.strip_prefix("max-") {
            Some(d) => U256::MAX - U256::from_str_radix(d, 10).unwrap(),
            None => U256::from_str_radix(b, 10).unwrap(),
        };
        accounts.get_mut(&account::MINER_ADDRESS).unwrap().info.balance = bal;
    }
    let mut bytecodes: HashMap<B256, Bytecode> = HashMap::default();
    let (code_hash, code, balance) = if s.raw["holder_code"].as_str() == Some("selfdestruct") {
        let mut c = vec![0x73];
        c.extend_from_slice(receiver().as_slice());
        c.push(0xff);
        let code = Bytecode::new_raw(c.into());
        bytecodes.insert(code.hash_slow(), code.clone());
        (code.hash_slow(), Some(code), U256::from(5))
    } else {
        (KECCAK_EMPTY, None, U256::ZERO)
    };
    for q in [false, true] {
        let me = if q { holder2() } else { holder() };
        let storage = s.slots.iter().enumerate().filter(|(_, (a, _))| *a == me).map(|(l, (_, k))| (*k, U256::from(s.pre[l]))).collect();
        accounts.insert(
            if q { holder2() } else { holder() },
            PlainAccount {
                info: if q {
                    AccountInfo { nonce: 1, code_hash: KECCAK_EMPTY, code: None, ..Default::default() }
                } else {
                    AccountInfo { nonce: 1, balance, code_hash, code: code.clone(), ..Default::default() }
                },
                storage,
            },
        );
    }
    // the driver address is an existing (non-empty) account, so that calling it touches nothing
    accounts.insert(
        driver(),
        PlainAccount {
            info: AccountInfo { nonce: 1, code_hash: KECCAK_EMPTY, code: None, ..Default::default() },
            storage: Default::default(),
        },
    );
    if let Some(list) = s.raw["accounts"].as_array() {
        for acc in list {
            let addr = named(s, acc["name"].as_str().unwrap());
            let code = if let Some(d) = acc["delegate"].as_str() {
                Some(Bytecode::new_eip7702(named(s, d)))
            } else {
                acc["code"].as_str().map(|h| Bytecode::new_raw(hex_bytes(h).into()))
            };
            let code_hash = code.as_ref().map_or(KECCAK_EMPTY, |c| c.hash_slow());
            if let Some(c) = &code {
                bytecodes.insert(code_hash, c.clone());
            }
            accounts.insert(addr, PlainAccount {
                info: AccountInfo { nonce: acc["nonce"].as_u64().unwrap_or(1), balance: u256_of(&acc["balance"]), code_hash, code, ..Default::default() },
                storage: acc["storage"].as_object().map_or(Default::default(), |m| {
                    m.iter().map(|(k, v)| (U256::from_str_radix(k, 10).unwrap(), u256_of(v))).collect()
                }),
            });
        }
    }
    InMemoryDB::new(accounts, bytecodes, HashMap::default())
}

pub fn transactions(s: &Scenario) -> Vec<TxEnv> {
    if let Some(txs) = &s.txs {
        use revm_context::{either::Either, transaction::{Authorization, RecoveredAuthority, RecoveredAuthorization}};
        return txs
            .iter()
            .map(|t| {
                if let Some(from) = &t.from_name {
                    return TxEnv {
                        tx_type: if t.auth.is_empty() { 0 } else { 4 },
                        caller: named(s, from),
                        kind: if t.create { TxKind::Create } else { TxKind::Call(named(s, &t.to)) },
                        data: Bytes::from(t.data.clone().unwrap_or_else(|| vec![t.prog])),
                        value: t.value,
                        gas_limit: t.gas_limit,
                        gas_price: t.gas_price,
                        nonce: t.nonce,
                        authorization_list: t.auth.iter().map(|a| {
                            let auth = Authorization { chain_id: U256::ZERO, address: named(s, &a.target), nonce: a.nonce };
                            Either::Right(RecoveredAuthorization::new_unchecked(auth,
                                if a.valid { RecoveredAuthority::Valid(named(s, &a.authority)) } else { RecoveredAuthority::Invalid }))
                        }).collect(),
                        ..Default::default()
                    };
                }
                TxEnv {
                caller: if t.from == usize::MAX { account::MINER_ADDRESS } else { account::mock_eoa_address(t.from) },
                kind: TxKind::Call(match t.to.strip_prefix('e').and_then(|k| k.parse::<usize>().ok()) {
                    Some(k) => account::mock_eoa_address(k),
                    None if t.to == "ben" => account::MINER_ADDRESS,
                    None if t.to == "h" => holder(),
                    None => driver(),
                }),
                // only a call of the driver carries a program index; a plain transfer has no calldata
                data: if t.to.starts_with('e') || t.to == "ben" || t.to == "h" { Bytes::new() } else { Bytes::from(vec![t.prog]) },
                value: t.value,
                gas_limit: t.gas_limit,
                gas_price: t.gas_price,
                nonce: t.nonce,
                ..Default::default()
            }})
            .collect();
    }
    (0..s.n)
        .map(|i| TxEnv {
            caller: account::mock_eoa_address(i),
            kind: TxKind::Call(driver()),
            data: Bytes::from(vec![i as u8]),
            gas_limit: 300_000,
            gas_price: 1,
            nonce: 1,
            ..Default::default()
        })
        .collect()
}

/// The P-driver: interprets program `data[0]` through the journal-aware facade.
pub fn driver_precompile(s: &Scenario) -> DynParallelPrecompile {
    let progs = s.progs.clone();
    let slots = s.slots.clone();
    DynParallelPrecompile::new(PrecompileId::Custom("verif-driver".into()), move |input| {
        let reservoir = input.reservoir();
        let prog = &progs[input.data().first().copied().unwrap_or(0) as usize];
        let mut regs = [0u64; 3];
        let mut ip = 0usize;
        while ip < prog.len() {
            match &prog[ip] {
                Ins::R(l, r) => {
                    let (a, k) = slots[*l];
                    let v = input.state().sload(a, k)?.data;
                    regs[*r] = v.try_into().unwrap_or(u64::MAX);
                    ip += 1;
                }
                Ins::W(l, r, add) => {
                    let v = if *r == 0 { 0 } else { regs[*r] } + add;
                    let (a, k) = slots[*l];
                    input.state().sstore(a, k, U256::from(v))?;
                    ip += 1;
                }
                Ins::Jeq(r, v, target) => {
                    ip = if regs[*r] == *v { *target - 1 } else { ip + 1 };
                }
                Ins::Rb(r) => {
                    let v = input.state().balance(account::MINER_ADDRESS)?.data;
                    regs[*r] = (v % U256::from(1_000_000_007u64)).try_into().unwrap_or(0);
                    ip += 1;
                }
                Ins::Rs(l, r) => {
                    let (a, k) = slots[*l];
                    match input.state().sload(a, k) {
                        Ok(v) => regs[*r] = v.data.try_into().unwrap_or(u64::MAX),
                        Err(_) => return Err(ParallelPrecompileError::Halt(revm::precompile::PrecompileHalt::other_static("value unavailable"))),
                    }
                    ip += 1;
                }
                Ins::Ri(l, r) => {
                    let (a, k) = slots[*l];
                    regs[*r] = input.state().sload(a, k).map_or(0, |v| v.data.try_into().unwrap_or(u64::MAX));
                    ip += 1;
                }
                Ins::Fail(kind) => {
                    return Err(ParallelPrecompileError::Fatal(PrecompileError::Fatal(format!(
                        "scripted {kind}"
                    ))));
                }
            }
        }
        Ok(PrecompileOutput::new(0, Bytes::new(), reservoir))
    })
}

pub fn cfg_env_of(s: &Scenario) -> CfgEnv {
    let spec = match s.raw["spec"].as_str().unwrap_or("SHANGHAI") {
        "FRONTIER" => SpecId::FRONTIER,
        "SPURIOUS_DRAGON" => SpecId::SPURIOUS_DRAGON,
        "BERLIN" => SpecId::BERLIN,
        "LONDON" => SpecId::LONDON,
        "CANCUN" => SpecId::CANCUN,
        "PRAGUE" => SpecId::PRAGUE,
        "OSAKA" => SpecId::OSAKA,
        "AMSTERDAM" => SpecId::AMSTERDAM,
        "HOMESTEAD" => SpecId::HOMESTEAD,
        _ => SpecId::SHANGHAI,
    };
    let mut c = CfgEnv::new_with_spec(spec);
    c.disable_nonce_check = s.raw["disable_nonce_check"].as_bool().unwrap_or(false);
    c
}
pub fn policy_of_scenario(s: &Scenario) -> DelegatedSafetyConfig {
    DelegatedSafetyConfig {
        forbid_delegated_create: s.raw["policy"]["create"].as_bool().unwrap_or(false),
        reserve_delegated_balance: s.raw["policy"]["reserve"].as_bool().unwrap_or(false),
    }
}

pub fn block_env() -> BlockEnv {
    BlockEnv { beneficiary: account::MINER_ADDRESS, ..Default::default() }
}

/// One step of the in-order reference.
#[derive(Clone, Debug)]
pub struct RefStep {
    pub outcome: Option<TxExecutionOutcome>,
    pub result_digest: String,
    pub delta: Vec<String>,
}

pub struct Reference {
    pub steps: Vec<RefStep>,
    /// `Some((k, text))` if in-order execution fails fatally at k.
    pub error: Option<(usize, String)>,
    pub outcomes: Vec<TxExecutionOutcome>,
    pub bundle: BundleState,
    /// Value digest of every universe location before tx k (k = 0..=len(steps)).
    pub states: Vec<BTreeMap<String, String>>,
}

fn loc_value<DB: DatabaseRef>(db: &DB, raw: &str) -> String
where
    DB::Error: std::fmt::Debug,
{
    loc_value_opt(db, raw).unwrap_or_else(|| "unavailable".to_owned())
}

fn loc_value_mut<DB: revm::Database>(db: &mut DB, raw: &str) -> String
where
    DB::Error: std::fmt::Debug,
{
    let parts: Vec<&str> = raw.split(':').collect();
    let addr: Address = parts[1].parse().unwrap_or_else(|_| format!("0x{}", parts[1]).parse().unwrap());
    let v = match parts[0] {
        "B" => db.basic(addr).ok().map(|i| digest::info(i.as_ref())),
        "S" => db.storage(addr, U256::from_str_radix(parts[2], 16).unwrap()).ok().map(|v| format!("{v:x}")),
        "C" => db.basic(addr).ok().map(|i| i.map_or("none".into(), |i| format!("code:{:x}", i.code_hash))),
        _ => Some("none".into()),
    };
    v.unwrap_or_else(|| "unavailable".to_owned())
}

fn loc_value_opt<DB: DatabaseRef>(db: &DB, raw: &str) -> Option<String>
where
    DB::Error: std::fmt::Debug,
{
    let parts: Vec<&str> = raw.split(':').collect();
    let addr: Address = parts[1].parse().unwrap_or_else(|_| format!("0x{}", parts[1]).parse().unwrap());
    Some(match parts[0] {
        "B" => digest::info(db.basic_ref(addr).ok()?.as_ref()),
        "S" => format!("{:x}", db.storage_ref(addr, U256::from_str_radix(parts[2], 16).unwrap()).ok()?),
        "C" => db.basic_ref(addr).ok()?.map_or("none".into(), |i| format!("code:{:x}", i.code_hash)),
        _ => "none".into(),
    })
}

/// Stock revm, in order, skipping invalid transactions, the same precompile adapter installed.
pub fn reference(s: &Scenario, universe: &[String], with_fault: bool) -> Reference {
    reference_prefix(s, universe, with_fault, s.n)
}

/// In-order reference over the first `limit` transactions only.
pub fn reference_prefix(s: &Scenario, universe: &[String], with_fault: bool, limit: usize) -> Reference {
    // `ref_progs`: the reference runs the well-behaved twin of a precompile implementation that swallows or ignores
    // facade errors (the property says the facade's fault takes effect regardless of what the implementation does)
    if s.raw["ref_progs"].is_array() {
        let mut raw = s.raw.clone();
        raw["progs"] = raw["ref_progs"].take();
        raw.as_object_mut().unwrap().remove("ref_progs");
        return reference_prefix(&Scenario::from_json(&raw), universe, with_fault, limit);
    }
    let db = FaultDb::new(database(s), if with_fault { s.fault.clone() } else { None });
    // the fee recipient is loaded up front, as the scheduler does
    let preload = db.basic_ref(account::MINER_ADDRESS).err().map(|e| format!("Database({e:?})"));
    let limit = if preload.is_some() { 0 } else { limit };
    let state = StateBuilder::new().with_bundle_update().with_database_ref(db).build();
    let spec = cfg_env_of(s).spec;
    let mut evm = Context::mainnet()
        .with_db(state)
        .with_cfg(cfg_env_of(s))
        .with_block(block_env())
        .build_mainnet_with_inspector(revm_inspector::NoOpInspector {})
        .with_precompiles(PrecompilesMap::from_static(EthPrecompiles::new(spec).precompiles));
    let p = driver_precompile(s).to_alloy();
    evm.precompiles.apply_precompile(&driver(), move |_| Some(p));
    let mut evm = EthEvm::new(evm, false);
    // The oracle is revm State's `Database` interface - the one execution itself reads through.
    // (revm-database 15.0.2: `DatabaseRef::storage_ref` of State falls through to the backing
    // database for a destroyed account, which is not what its own `Database::storage` serves.)
    let snapshot = |evm: &mut EthEvm<_, _, _>| -> BTreeMap<String, String> {
        universe.iter().map(|l| (l.clone(), loc_value_mut(evm.db_mut(), l))).collect()
    };
    let mut steps = Vec::new();
    let mut outcomes = Vec::new();
    let mut states = vec![snapshot(&mut evm)];
    let mut error = preload.map(|e| (0, e));
    for (k, tx) in transactions(s).into_iter().enumerate().take(limit) {
        match evm.transact_raw(tx) {
            Ok(rs) => {
                steps.push(RefStep {
                    outcome: Some(TxExecutionOutcome::Executed(rs.result.clone())),
                    result_digest: digest::result_digest(&rs.result),
                    delta: digest::state_digest(&rs.state),
                });
                outcomes.push(TxExecutionOutcome::Executed(rs.result));
                evm.db_mut().commit(rs.state);
            }
            Err(EVMError::Transaction(t)) => {
                steps.push(RefStep { outcome: Some(TxExecutionOutcome::Skipped(t.clone())), result_digest: format!("{t:?}"), delta: vec![] });
                outcomes.push(TxExecutionOutcome::Skipped(t));
            }
            Err(e) => {
                error = Some((k, format!("{e:?}")));
                break;
            }
        }
        states.push(snapshot(&mut evm));
    }
    evm.db_mut().merge_transitions(BundleRetention::Reverts);
    let bundle = evm.db_mut().take_bundle();
    Reference { steps, error, outcomes, bundle, states }
}

pub fn bundle_diff(left: &BundleState, right: &BundleState) -> Option<String> {
    let l: BTreeMap<_, _> = left.state.iter().collect();
    let r: BTreeMap<_, _> = right.state.iter().collect();
    if l.keys().collect::<Vec<_>>() != r.keys().collect::<Vec<_>>() {
        return Some(format!("bundle accounts differ: {:?} vs {:?}", l.keys(), r.keys()));
    }
    for (a, x) in &l {
        let y = r[a];
        if x.info != y.info || x.original_info != y.original_info || x.status != y.status {
            return Some(format!("bundle account {a:x}: {:?}/{:?} vs {:?}/{:?}", x.info, x.status, y.info, y.status));
        }
        let xs: BTreeMap<_, _> = x.storage.iter().collect();
        let ys: BTreeMap<_, _> = y.storage.iter().collect();
        if xs != ys {
            return Some(format!("bundle storage of {a:x}: {xs:?} vs {ys:?}"));
        }
    }
    let lc: std::collections::BTreeSet<_> = left.contracts.keys().collect();
    let rc: std::collections::BTreeSet<_> = right.contracts.keys().collect();
    if lc != rc {
        let show = |b: &BundleState| b.state.iter().map(|(a, x)| format!("{a:x}: code={:?} orig={:?} status={:?}", x.info.as_ref().map(|i| i.code.as_ref().map(|c| c.len())), x.original_info.as_ref().map(|i| i.code.as_ref().map(|c| c.len())), x.status)).collect::<Vec<_>>();
        return Some(format!("bundle contracts differ: in-order revm {lc:?} vs grevm {rc:?}; revm accounts {:?}; grevm accounts {:?}", show(left), show(right)));
    }
    if left.reverts.len() != right.reverts.len() {
        return Some("bundle revert block count differs".into());
    }
    for (lb, rb) in left.reverts.iter().zip(right.reverts.iter()) {
        let lm: BTreeMap<_, _> = lb.iter().map(|(a, r)| (a, r)).collect();
        let rm: BTreeMap<_, _> = rb.iter().map(|(a, r)| (a, r)).collect();
        if lm != rm {
            return Some(format!("bundle reverts differ: {lm:?} vs {rm:?}"));
        }
    }
    if left.state_size != right.state_size || left.reverts_size != right.reverts_size {
        return Some(format!(
            "bundle size accounting differs: {}/{} vs {}/{}",
            left.state_size, left.reverts_size, right.state_size, right.reverts_size
        ));
    }
    None
}

pub struct SchedOutcome {
    /// what the returned ParallelState serves for each universe location (C10)
    pub served: BTreeMap<String, String>,
    pub record: RunRecord,
    pub result: Result<(), (usize, String)>,
    pub outcomes: Vec<TxExecutionOutcome>,
    pub bundle: BundleState,
}

/// Run the real scheduler on the scenario under the controller.
pub fn run_scheduler(s: &Scenario, cfg: Config, workers: usize, force_sequential: bool,
                     fatal: Arc<Mutex<Option<(Verdict, RunRecord)>>>, universe: &[String]) -> SchedOutcome {
    let ctl = Controller::new(cfg);
    let f2 = fatal.clone();
    ctl.on_fatal(move |v, rec| {
        *f2.lock().unwrap() = Some((v.clone(), rec.clone()));
        crate::set_fatal(v.clone(), rec.clone());
        // The threads of this run are stuck by construction; the caller's fatal hook (installed
        // by main) reports and exits.
        crate::fatal_exit();
    });
    let db = Arc::new(FaultDb::new(database(s), s.fault.clone()));
    let scheduler = Scheduler::new_with_runtime_config(
        cfg_env_of(s),
        block_env(),
        Arc::new(transactions(s)),
        ParallelState::new(db, true, false),
        Some(Arc::new(vec![(driver(), driver_precompile(s))])),
        GrevmConfig {
            concurrency_level: workers,
            force_sequential,
            min_parallel_txs: 0,
            delegated_safety: policy_of_scenario(s),
        },
    );
    verif::install(ctl.clone());
    ctl.register_single_root("main");
    let result = std::panic::catch_unwind(std::panic::AssertUnwindSafe(|| scheduler.execute()));
    ctl.finish_root();
    verif::uninstall();
    let result = match result {
        Ok(r) => r.map_err(|e| (e.txid, format!("{:?}", e.error))),
        Err(payload) => Err((
            usize::MAX,
            format!(
                "panic: {}",
                payload.downcast_ref::<String>().cloned().or_else(|| payload.downcast_ref::<&str>().map(|s| (*s).to_owned())).unwrap_or_default()
            ),
        )),
    };
    let (outcomes, mut state) = scheduler.take_result_and_state();
    // (a database that panics on a key would panic here as well: then nothing is served)
    let served = std::panic::catch_unwind(std::panic::AssertUnwindSafe(|| {
        universe.iter().filter_map(|l| loc_value_opt(&state, l).map(|v| (l.clone(), v))).collect()
    }))
    .unwrap_or_default();
    let bundle = state.parallel_take_bundle(BundleRetention::Reverts);
    SchedOutcome {
        served,
        record: ctl.record(),
        result,
        outcomes,
        bundle,
    }
}

/// Plain (uncontrolled) run of the real scheduler with an explicit configuration.
pub fn run_plain(s: &Scenario, workers: usize, force_sequential: bool, min_parallel: usize, fallback_entry: bool) -> (Result<(), (usize, String)>, Vec<TxExecutionOutcome>, BundleState) {
    let db = Arc::new(FaultDb::new(database(s), s.fault.clone()));
    let scheduler = Scheduler::new_with_runtime_config(
        cfg_env_of(s),
        block_env(),
        Arc::new(transactions(s)),
        ParallelState::new(db, true, false),
        Some(Arc::new(vec![(driver(), driver_precompile(s))])),
        GrevmConfig { concurrency_level: workers, force_sequential, min_parallel_txs: min_parallel, delegated_safety: policy_of_scenario(s) },
    );
    let r = if fallback_entry { scheduler.fallback_sequential() } else { scheduler.execute() };
    let (outcomes, mut state) = scheduler.take_result_and_state();
    let bundle = state.parallel_take_bundle(BundleRetention::Reverts);
    (r.map_err(|e| (e.txid, format!("{:?}", e.error))), outcomes, bundle)
}

pub fn outcome_kind(o: &TxExecutionOutcome) -> &'static str {
    match o {
        TxExecutionOutcome::Skipped(_) => "skipped",
        TxExecutionOutcome::Executed(revm_context::result::ExecutionResult::Success { .. }) => "success",
        TxExecutionOutcome::Executed(revm_context::result::ExecutionResult::Revert { .. }) => "revert",
        TxExecutionOutcome::Executed(revm_context::result::ExecutionResult::Halt { .. }) => "halt",
    }
}

/// Monitors for blocks run with a delegated-account policy: stock revm is no oracle; the rule
/// model's expectations (`expect`) and the agreement of the execution paths are.
pub fn policy_monitors(s: &Scenario, o: &SchedOutcome, other: &(Result<(), (usize, String)>, Vec<TxExecutionOutcome>, BundleState)) -> Vec<(String, String)> {
    let prop = s.raw["prop"].as_str().unwrap_or("C06").to_owned();
    let mut v = Vec::new();
    if o.result.is_ok() != other.0.is_ok() || o.outcomes != other.1 {
        v.push(("C06".into(), format!("parallel and sequential paths disagree under the policy: {:?} / {} outcomes vs {:?} / {} outcomes; kinds {:?} vs {:?}",
            o.result, o.outcomes.len(), other.0, other.1.len(), o.outcomes.iter().map(outcome_kind).collect::<Vec<_>>(), other.1.iter().map(outcome_kind).collect::<Vec<_>>())));
    } else if let Some(d) = bundle_diff(&other.2, &o.bundle) {
        v.push(("C06".into(), format!("parallel and sequential paths leave different state under the policy: {d}")));
    }
    // Substitution oracle: where the rule model says "this frame halts", stock revm on the same
    // block with the halting code replaced by INVALID (a frame halt that consumes all gas) is exact.
    if let Some(subst) = s.raw["oracle_alt"].as_object() {
        let mut raw = s.raw.clone();
        raw.as_object_mut().unwrap().remove("policy");
        for acc in raw["accounts"].as_array_mut().unwrap() {
            if let Some(code) = subst.get(acc["name"].as_str().unwrap()) {
                acc["code"] = code.clone();
            }
        }
        if let Some(data) = subst.get("tx0.data") {
            raw["txs"][0]["data"] = data.clone();
        }
        let alt = Scenario::from_json(&raw);
        let r = reference(&alt, &[], false);
        let sig = |o: &TxExecutionOutcome| match o {
            TxExecutionOutcome::Skipped(e) => format!("skipped:{e:?}"),
            TxExecutionOutcome::Executed(x) => format!("{}:gas={}:logs={}:out={:?}", outcome_kind(o), x.gas_used(), x.logs().len(), x.output()),
        };
        let have: Vec<_> = o.outcomes.iter().map(sig).collect();
        let want: Vec<_> = r.outcomes.iter().map(sig).collect();
        if o.result.is_err() || have != want {
            v.push((prop.clone(), format!("outcomes differ from stock revm on the block in which the guarded frame halts: {:?} {have:?} vs {want:?}", o.result)));
        } else if let Some(d) = bundle_diff(&r.bundle, &o.bundle) {
            v.push((prop.clone(), format!("state differs from stock revm on the block in which the guarded frame halts: {d}")));
        }
    }
    v.extend(expect_monitors(s, o));
    v
}

/// The rule model's expected observables (`expect`) of a scenario generated from TLC-enumerated cases.
pub fn expect_monitors(s: &Scenario, o: &SchedOutcome) -> Vec<(String, String)> {
    let prop = s.raw["prop"].as_str().unwrap_or("C06").to_owned();
    let mut v = Vec::new();
    if let Some(exp) = s.raw["expect"]["kinds"].as_object() {
        for (k, want) in exp {
            let k: usize = k.parse().unwrap();
            let have = o.outcomes.get(k).map_or("missing", outcome_kind);
            if Some(have) != want.as_str() {
                v.push((prop.clone(), format!("transaction {k} is reported as {have}, the rule model expects {want}")));
            }
        }
    }
    if let Some(list) = s.raw["expect"]["final"].as_array() {
        for e in list {
            // [account, "nonce" | "balance" | slot number, expected decimal]
            let a = named(s, e[0].as_str().unwrap());
            let acct = o.bundle.state.get(&a);
            let want = e[2].as_str().map_or_else(|| U256::from(e[2].as_u64().unwrap_or(0)), |d| U256::from_str_radix(d, 10).unwrap());
            let have = match e[1].as_str() {
                Some("nonce") => acct.and_then(|x| x.info.as_ref()).map(|i| U256::from(i.nonce)),
                Some("balance") => acct.and_then(|x| x.info.as_ref()).map(|i| i.balance),
                _ => acct.and_then(|x| x.storage.get(&U256::from(e[1].as_u64().unwrap()))).map(|sl| sl.present_value),
            };
            // an account or slot absent from the bundle is unchanged: compare with the pre-state
            let have = have.unwrap_or_else(|| {
                let db = database(s);
                match e[1].as_str() {
                    Some("nonce") => db.basic_ref(a).unwrap().map_or(U256::ZERO, |i| U256::from(i.nonce)),
                    Some("balance") => db.basic_ref(a).unwrap().map_or(U256::ZERO, |i| i.balance),
                    _ => db.storage_ref(a, U256::from(e[1].as_u64().unwrap())).unwrap(),
                }
            });
            if have != want {
                v.push((prop.clone(), format!("final {} of {} is {have}, the rule model expects {want}", e[1], e[0])));
            }
        }
    }
    v
}

/// Harness-side monitors: the property statements evaluated on one observed run.
pub fn monitors(s: &Scenario, reference: &Reference, o: &SchedOutcome) -> Vec<(String, String)> {
    let mut v: Vec<(String, String)> = Vec::new();
    // A panic of the user-supplied database inside a worker must reach the caller unchanged.
    if let Some((key, mode)) = &s.fault &&
        mode == "panic"
    {
        // does in-order execution touch the key at all?
        let touches = std::panic::catch_unwind(|| reference_prefix(s, &[], true, s.n)).is_err();
        match &o.result {
            Err((k, e)) if *k == usize::MAX => {
                if !e.contains(&format!("injected panic at {key}")) {
                    v.push(("C05".into(), format!("the caller saw a different panic payload: {e}")));
                }
                if !touches {
                    v.push(("C04".into(), format!("a panic on a key that in-order execution never reads was raised: {e}")));
                }
            }
            other => {
                if touches {
                    v.push(("C05".into(), format!("in-order execution panics at {key} but execute() returned {other:?}")));
                }
            }
        }
        return v;
    }
    // A transient (fail-once) fault is either absorbed (then everything below applies unchanged with
    // the fault-free reference) or reported with an exact prefix of the fault-free execution.
    if let Some((_, mode)) = &s.fault &&
        mode == "once" &&
        let Err((k, e)) = &o.result &&
        // (a block whose fault-free in-order execution fails at k with this very error is judged below like any other)
        !reference.error.as_ref().is_some_and(|(rk, re)| rk == k && re == e)
    {
        if !e.contains("injected fault") {
            v.push(("C04".into(), format!("reported error is not the injected fault: tx {k}: {e}")));
        }
        if o.outcomes.len() != *k || o.outcomes[..] != reference.outcomes[..(*k).min(reference.outcomes.len())] {
            v.push(("C04".into(), format!("after the transient fault at tx {k} the returned outcomes ({}) are not the first {k} in-order outcomes", o.outcomes.len())));
        }
        let prefix = reference_prefix(s, &[], false, *k);
        if let Some(d) = bundle_diff(&prefix.bundle, &o.bundle) {
            v.push(("C04".into(), format!("after the transient fault at tx {k} the state is not the effect of the first {k} transactions: {d}")));
        }
        return v;
    }
    // C02: every commit event equals step k of the reference, in order, once
    let mut next = 0usize;
    for e in o.record.events.iter().filter(|e| e.label == "C_Apply") {
        let k = e.int("tx").unwrap() as usize;
        if k != next {
            v.push(("C02".into(), format!("commit of tx {k} while the committed prefix was {next}")));
        }
        next = k + 1;
        match reference.steps.get(k) {
            None => v.push(("C02".into(), format!("commit of tx {k} beyond the reference (in-order fails at {:?})", reference.error))),
            Some(step) => {
                let delta: Vec<String> = match e.get("delta") {
                    Some(Val::L(l)) => l.iter().map(|x| if let Val::S(s) = x { s.clone() } else { String::new() }).collect(),
                    _ => vec![],
                };
                if step.outcome.as_ref().is_some_and(|o| matches!(o, TxExecutionOutcome::Skipped(_))) {
                    v.push(("C03".into(), format!("tx {k} was committed but in-order validation rejects it")));
                } else if delta != step.delta || e.string("result") != Some(step.result_digest.as_str()) {
                    v.push(("C02".into(), format!(
                        "commit {k} differs from the in-order effect: committed {:?} / {:?}, in-order {:?} / {}",
                        delta, e.string("result"), step.delta, step.result_digest)));
                }
            }
        }
    }
    // C01 / C03 / C04: the final observable
    match (&o.result, &reference.error) {
        (Ok(()), None) => {
            if o.outcomes != reference.outcomes {
                let kinds = |x: &Vec<TxExecutionOutcome>| x.iter().map(|o| matches!(o, TxExecutionOutcome::Executed(_))).collect::<Vec<_>>();
                let prop = if kinds(&o.outcomes) != kinds(&reference.outcomes) { "C03" } else { "C01" };
                v.push((prop.into(), format!("outcomes differ from in-order execution: {:?} vs {:?}", o.outcomes, reference.outcomes)));
            }
            if let Some(d) = bundle_diff(&reference.bundle, &o.bundle) {
                v.push(("C01".into(), d));
            }
        }
        (Err((k, e)), None) => {
            v.push(("C04".into(), format!("execute() returned Err(tx {k}: {e}) although in-order execution completes")));
        }
        (Ok(()), Some((k, e))) => {
            v.push(("C04".into(), format!("execute() returned Ok although in-order execution fails at tx {k}: {e}")));
        }
        (Err((k, _e)), Some((rk, _re))) => {
            if k != rk {
                v.push(("C04".into(), format!("error reported for tx {k}, in-order execution fails at tx {rk}")));
            }
            if o.outcomes.len() != *rk || o.outcomes[..] != reference.outcomes[..(*rk).min(reference.outcomes.len())] {
                v.push(("C04".into(), format!("outcomes after the error are not the first {rk} in-order outcomes: {} returned", o.outcomes.len())));
            }
            if let Some(d) = bundle_diff(&reference.bundle, &o.bundle) {
                v.push(("C04".into(), format!("state after the error is not the in-order prefix: {d}")));
            }
        }
    }
    // C10: every value readable through the returned state equals what revm's State serves
    if s.fault.is_none() && o.result.is_ok() == reference.error.is_none() {
        if let Some(last) = reference.states.last() {
            for (l, have) in &o.served {
                if let Some(want) = last.get(l) &&
                    want != have &&
                    !l.starts_with("R:")
                {
                    v.push(("C10".into(), format!("the returned state serves {have} for {} but revm State serves {want}", loc_name(s, l))));
                }
            }
        }
    }
    v
}

/// SCHED events rendered for GrevmTrace: labels the specification knows, locations by name.
pub fn trace_events(s: &Scenario, rec: &RunRecord) -> Vec<Value> {
    const KEEP: &[&str] = &[
        "W_Loop", "W_ValClaim", "W_ValLock", "D_Next", "W_ExecTask", "D_Remove", "E_Begin", "R_Read",
        "P_Pub", "E_Done", "P_Unpub", "P_Est", "D_Add", "E_HeadCheck", "D_KeyTx", "X_Publish",
        "T_Rewind1", "T_Rewind2", "E_End", "V_Begin", "V_Ts", "V_Scan", "T_Unconf", "V_End", "V_Notify",
        "N_Notify", "N_Register", "N_Park", "F_Loop", "F_ValLoad", "F_Lock", "F_Decide", "F_Final", "F_Publish",
        "F_Pred", "C_Loop", "C_FinLoad", "C_Take", "C_Nonce", "C_Apply", "C_Publish", "D_Commit", "C_Pred", "A_Abort",
        "A_Cancel", "M_Post", "S_Tx", "M_Path", "E_Res", "H_Rec", "S_Begin", "M_Install",
    ];
    let mut out = Vec::new();
    for e in rec.events.iter().filter(|e: &&Event| (e.group & verif::group::SCHED != 0 && KEEP.contains(&e.label)) ||
        (e.group & verif::group::HIST != 0 && e.label == "HE_Record")) {
        // the beneficiary history is not part of the scheduler specification (Beneficiary.tla)
        if matches!(e.label, "R_Read") && let Some(v) = e.string("ver") && v.starts_with("ben") {
            // a read blocked by an unresolved history entry still makes the attempt an estimate
            if let Some(j) = v.strip_prefix("benblock:") {
                out.push(json!({"l": "R_BenBlock", "t": e.thread, "blocker": j.parse::<i64>().unwrap_or(-1)}));
            }
            continue;
        }
        if e.label == "V_Scan" && e.string("had").is_some_and(|v| v.starts_with("ben")) {
            continue;
        }
        let mut j = e.to_json();
        if let Some(l) = e.string("loc") {
            j["loc"] = json!(loc_name(s, l));
        }
        if e.label == "C_Nonce" {
            // nonces are only compared for equality; as text they survive TLC's 32-bit integers
            for k in ["tx_nonce", "state_nonce"] {
                if j[k].is_number() {
                    j[k] = json!(j[k].to_string());
                }
            }
        }
        if e.label == "E_Done" {
            if let Some(Val::L(w)) = e.get("writes") {
                j["writes"] = json!(w.iter().filter_map(|x| if let Val::S(x) = x { Some(loc_name(s, x)) } else { None }).collect::<Vec<_>>());
            }
            j.as_object_mut().unwrap().remove("reads");
        }
        // a storage read consults the reset marker first: two lookups, two records
        if e.label == "R_Read" && let Some(reset) = e.string("reset") {
            let raw = e.string("loc").unwrap();
            let addr = raw.split(':').nth(1).unwrap();
            let mut r = j.clone();
            r["loc"] = json!(loc_name(s, &format!("R:{addr}")));
            r["ver"] = json!(reset);
            r["val"] = json!(if reset == "st" { "none" } else { "reset" });
            r["est"] = json!(e.boolean("reset_est").unwrap_or(false));
            out.push(r);
        }
        out.push(j);
    }
    out
}

/// Raw location strings that appear in a run (the universe for reference states).
pub fn universe(rec: &RunRecord) -> Vec<String> {
    let mut u: std::collections::BTreeSet<String> = Default::default();
    for e in &rec.events {
        if let Some(l) = e.string("loc") {
            u.insert(l.to_owned());
        }
    }
    u.into_iter().collect()
}

pub fn unused(_: B256, _: Bytecode) {}
